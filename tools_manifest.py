#!/usr/bin/env python3
"""Generates MANIFEST.json from the table below (keeps it valid and consistent)."""
import json, os
HERE = os.path.dirname(os.path.abspath(__file__))

PPNOTE = ('MIR of nightly rustc = code built by stable (dev-profile arithmetic); std models (String, Vec, HashMap with symbolic presence, BTreeMap = std B-tree algorithm '
          'driven by the real Range::cmp, Option/Result, iterators, Path/File as symbolic file system) as listed in evidence.models_and_stubs; the real nom parser is run natively '
          'for the tree of each concrete text (concolic split), tree iterators/conversions run from MIR; reference evaluator lib/ppref.py restates IEEE 1800-2017 22.4-22.6.')
PPTECH = 'MIR symbolic execution (own interpreter, python+z3) of the real preprocessor; z3 decides agreement with a reference evaluator on every intersection of path conditions; native replay of every counterexample'

CHECKS = {
 'C03': dict(
    category='model_checking',
    text='(a) map core: the real PreprocessedText::{new,push,merge,origin} and Range::{new,offset,eq,cmp} MIR executed on symbolic push sequences (lengths 0..3, source offsets, with/without origin, one nested merge) and a symbolic probe position, BTreeMap modelled by std\'s B-tree algorithm calling the real comparator; every model that violates the oracle (segment containing pos, src+(pos-base)) or reaches a panic is replayed on the real BTreeMap. (b) emission sites: preprocess_str MIR on texts exercising every push site (kept directives, conditionals with trailing text, macro usages with empty/non-empty expansion, includes, non-ASCII) with define table and strip_comments symbolic; origins of every output byte compared with the provenance computed by the reference. Bounded: <=7 segments with empty ones, <=30 non-empty, one merge level, the listed texts.',
    note=PPNOTE, technique=PPTECH, design='4/C03'),
 'C04': dict(
    category='model_checking',
    text='Bounded symbolic execution of the real preprocess_str (rustc MIR) on a family of conditional programs (chains <=3, nesting <=2, define/undef/undefineall/usages inside branches and through macro bodies) with the initial define table and strip_comments as z3 variables; a reference evaluator of IEEE 22.6 runs under the same variables and z3 decides agreement on every intersection of a real path with a reference case; counterexamples are replayed natively. All define tables over the names used are covered for every program of the family; programs outside the family are not.',
    note=PPNOTE, technique=PPTECH, design='4/C04'),
 'C09': dict(
    category='model_checking',
    text='resolve_depth and include_depth enter the real preprocess_str MIR as unbounded z3 integers; for every recursion edge of the code (usage->expansion, include->file, macro-named include, include inside an expansion) the outcome (Ok / ExceedRecursiveLimit under exactly one Include wrapper per level) must agree with the reference for every depth value; direct/mutual/3-cycles of macros, self/mutual includes, macro->include cycle and 64/65-deep chains are executed from depth 0; stack exhaustion of the interpreter is replayed natively as a process abort.',
    note=PPNOTE, technique=PPTECH, design='4/C09'),
 'C10': dict(
    category='model_checking',
    text='The real preprocess_str/preprocess_inner MIR on include programs (search order cwd -> include paths in both orders, both quoting styles, macro-named file, absolute path, nesting to depth 3, same file twice, defines/undefs flowing in and out, same-line rule, ignore_include, missing and non-UTF-8 files) with the existence of every candidate path, the define table and ignore_include symbolic; compared with the reference: surviving tokens, returned table, Error variant/payload/Include nesting, list of files opened, origins.',
    note=PPNOTE + ' File system = symbolic existence per path + fixed content (models_pp.SymFS).', technique=PPTECH, design='4/C10'),
 'C11': dict(
    category='model_checking',
    text='Returned define table: programs with define/undef/undefineall/redefinition (plain, in dead branches, through macro bodies) run on the real MIR with the initial table symbolic; presence (as z3 terms), formals, defaults, body text and body range of every entry compared with the reference table on every feasible intersection. Threading: for pairs (f1,f2) one symbolic execution runs the real code on f1, on f2 with the table returned for f1, and on f1++f2, and the solver looks for an initial table under which texts or final tables differ.',
    note=PPNOTE, technique=PPTECH, design='4/C11'),
 'C18': dict(
    category='model_checking',
    text='strip_comments symbolic on programs with comments as sole separators, next to directives/usages, in define bodies (+ emission-site and conditional families): (a) reference cross-check of tokens/table under the flag, (b) relational check between every strip=true and strip=false real path with compatible conditions (non-comment tokens, error, table), (c) no comment token in strip=true output outside kept `define lines.',
    note=PPNOTE, technique=PPTECH + '; relational (2-run) query over path conditions', design='4/C18'),
}

NA = {
}

ALL = ['C%02d' % i for i in range(1, 21)]
PENDING_REASON = 'check not built yet in this session (see DESIGN.md section 6 build order); not claimed until its check exists'

def main():
    checks = []
    for pid in ALL:
        if pid in CHECKS:
            c = CHECKS[pid]
            checks.append({
                'property_id': pid,
                'quick_cmd': './check %s --tier quick' % pid,
                'thorough_cmd': './check %s --tier thorough' % pid,
                'evidence_file': 'evidence/%s.json' % pid,
                'replay_cmd_template': './check %s --replay {path}' % pid,
                'engine': c.get('engine', 'mirsym'),
                'level_claimed': {'category': c['category'], 'text': c['text'], 'design_ref': c['design']},
                'level_note': c['note'],
                'technique': c['technique'],
            })
    na = []
    for pid in ALL:
        if pid not in CHECKS:
            na.append({'property_id': pid, 'reason': NA.get(pid, PENDING_REASON)})
    m = {
        'version': 1,
        'setup_cmd': './setup.sh',
        'hooks': {
            'guard': 'sv_parser_verif',
            'enable': 'RUSTFLAGS="--cfg sv_parser_verif" (set by lib/build.py when it builds svreplay against /repo)',
            'baseline_off_cmd': 'cd /repo && cargo test --workspace --no-fail-fast --offline',
            'source_commits': ['1624b8e'],
            'add_only': True,
        },
        'engines': [
            {'name': 'mirsym', 'path': 'mirsym/', 'serves_properties': sorted(CHECKS),
             'kind_free_text': 'symbolic executor for rustc MIR dumps (python + z3): real functions of sv-parser-pp / sv-parser / sv-parser-syntaxtree / sv-parser-parser executed on symbolic inputs; forks explored by re-execution; panic obligations'},
            {'name': 'svreplay', 'path': 'svreplay/', 'serves_properties': sorted(CHECKS),
             'kind_free_text': 'native replay/oracle tool linking the real crates with hooks on: runs the real parser for concrete texts (concolic split) and replays every solver counterexample before it is reported'},
        ],
        'checks': checks,
        'not_applicable': na,
        'notes': 'Solver-based checking of the real code: see DESIGN.md. Exit codes of ./check: 0 held, 1 VIOLATION, 2 INCONCLUSIVE (unsupported construct, solver unknown, counterexample that does not replay).',
    }
    with open(os.path.join(HERE, 'MANIFEST.json'), 'w') as fh:
        json.dump(m, fh, indent=1)

if __name__ == '__main__':
    main()
