#!/usr/bin/env python3
"""Generates MANIFEST.json from the table below (keeps it valid and consistent)."""
import json, os
HERE = os.path.dirname(os.path.abspath(__file__))

PPNOTE = ('MIR of nightly rustc = code built by stable (dev-profile arithmetic); std models (String, Vec, HashMap with symbolic presence, BTreeMap = std B-tree algorithm '
          'driven by the real Range::cmp, Option/Result, iterators, Path/File as symbolic file system) as listed in evidence.models_and_stubs; the real nom parser is run natively '
          'for the tree of each concrete text (concolic split), tree iterators/conversions run from MIR; reference evaluator lib/ppref.py restates IEEE 1800-2017 22.4-22.6.')
PPTECH = 'MIR symbolic execution (own interpreter, python+z3) of the real preprocessor; z3 decides agreement with a reference evaluator on every intersection of path conditions; native replay of every counterexample'

CHECKS = {
 'C03': dict(
    category='model_checking',
    text='(a) map core: the real PreprocessedText::{new,push,merge,origin} and Range::{new,offset,eq,cmp} MIR executed on symbolic push sequences (lengths 0..3, source offsets, with/without origin, merges nested up to 3 levels quick, 4 thorough) and a symbolic probe position, BTreeMap modelled by std\'s B-tree algorithm calling the real comparator; every model that violates the oracle (segment containing pos, src+(pos-base)) or reaches a panic is replayed on the real BTreeMap. (b) emission sites: preprocess_str MIR on texts exercising every push site (kept directives, conditionals with trailing text, macro usages with empty/non-empty expansion, includes, non-ASCII) with define table and strip_comments symbolic; origins of every output byte compared with the provenance computed by the reference. Bounded: <=7 segments with empty ones, <=30 non-empty, <=4 merge levels, the listed texts.',
    note=PPNOTE, technique=PPTECH, design='4/C03'),
 'C04': dict(
    category='model_checking',
    text='Bounded symbolic execution of the real preprocess_str (rustc MIR) on a family of conditional programs (chains <=3, nesting <=2, define/undef/undefineall/usages inside branches and through macro bodies, conditionals inside the parenthesised text after an object-like usage, one-line layouts where directive white space is the only separator, names written as escaped identifiers, CR LF sources) with the initial define table and strip_comments as z3 variables; a reference evaluator of IEEE 22.6 runs under the same variables and z3 decides agreement on every intersection of a real path with a reference case; counterexamples are replayed natively. All define tables over the names used are covered for every program of the family; programs outside the family are not.',
    note=PPNOTE, technique=PPTECH, design='4/C04'),
 'C09': dict(
    category='model_checking',
    text='resolve_depth and include_depth enter the real preprocess_str MIR as unbounded z3 integers; for every recursion edge of the code (usage->expansion, include->file, macro-named include, include inside an expansion) the outcome (Ok / ExceedRecursiveLimit under exactly one Include wrapper per level) must agree with the reference for every depth value; direct/mutual/3-cycles of macros, self/mutual includes, macro->include cycle and 64/65-deep chains are executed from depth 0; stack exhaustion of the interpreter is replayed natively as a process abort.',
    note=PPNOTE, technique=PPTECH, design='4/C09'),
 'C10': dict(
    category='model_checking',
    text='The real preprocess_str/preprocess_inner MIR on include programs (search order cwd -> include paths in both orders, both quoting styles, macro-named file, absolute path, nesting to depth 3, same file twice, defines/undefs flowing in and out, same-line rule incl. text runs starting on earlier lines, files without a final newline, define lines with trailing blanks/comments naming the file, a top path without parent directory, ignore_include, missing and non-UTF-8 files) with the existence of every candidate path, the define table and ignore_include symbolic; compared with the reference: surviving tokens, returned table, Error variant/payload/Include nesting, list of files opened, origins.',
    note=PPNOTE + ' File system = symbolic existence per path + fixed content (models_pp.SymFS).', technique=PPTECH, design='4/C10'),
 'C11': dict(
    category='model_checking',
    text='Returned define table: programs with define/undef/undefineall/redefinition (plain, in dead branches, through macro bodies, names written as escaped identifiers, bodies that look like comments under both values of strip_comments, CR LF sources) run on the real MIR with the initial table symbolic; presence (as z3 terms), formals, defaults, body text and body range of every entry compared with the reference table on every feasible intersection. Threading: for pairs (f1,f2) one symbolic execution runs the real code on f1, on f2 with the table returned for f1, and on f1++f2, and the solver looks for an initial table under which texts or final tables differ.',
    note=PPNOTE, technique=PPTECH, design='4/C11'),
 'C18': dict(
    category='model_checking',
    text='strip_comments symbolic on programs with comments as sole separators, white space of directives as sole separator, comments next to directives/usages and at the edges of macro bodies, `define bodies holding //, strings with slashes and continuations, CR LF sources (+ emission-site and conditional families): (a) reference cross-check of tokens/table under the flag, (b) relational check between every strip=true and strip=false real path with compatible conditions (non-comment tokens, error, table), (c) no comment token in strip=true output outside kept `define lines.',
    note=PPNOTE, technique=PPTECH + '; relational (2-run) query over path conditions', design='4/C18'),
}

GNOTE = ('Engine G: every production body of sv-parser-parser is executed from rustc MIR with its sub-parsers replaced by contracts (assume/guarantee over productions; nom 7 complete-parser contracts '
         'for the primitives incl. Error vs Failure; nom_locate: line = L(offset); #[packrat_parser] transparent, #[recursive_parser] fails on re-entry); loops unrolled twice, repetitions of effect-free '
         'productions taken as one inductive step; per-production path/time caps (truncated productions listed in the evidence).')
GTECH = 'modular verification conditions on the MIR of each grammar production (own symbolic executor + z3), whole-grammar fixpoints for scope effects / hard failures / non-nullability; native probes for confirmation'
WNOTE = 'MIR of nightly rustc; callees of the wrappers replaced by recording stubs returning symbolic results; std models as listed in the evidence.'

CHECKS.update({
 'C01': dict(category='model_checking', text='V1, one inductive verification condition per production (all ~1300 bodies incl. the symbol/keyword terminals, white_space, the imperative lexers with concat/into_locate): assuming each callee returns a node tiling the span it consumed, the node built tiles [p_in,p_out) with non-empty adjacent leaves in field order and line = L(offset); strict entries end at the end of the text. Unbounded in input length (inductive), conditional on the nom / nom_locate contracts. Iteration order and get_str are decided by C16.',
             note=GNOTE, technique=GTECH, design='4/C01'),
 'C05': dict(category='model_checking', text='IEEE 22.5.1 define/usage programs (formals with/without defaults, omitted/empty actuals, the three error cases by name, actuals with nested brackets/strings/commas, `` `" `\\`" continuation lines, // in bodies, nesting in bodies and arguments, redefinition between uses, caller-supplied macros, object-like macros followed by a parenthesised list, CR LF line ends incl. continuations) on the real preprocess_str + resolve_text_macro_usage + split_text MIR with define table and strip_comments symbolic, token-wise against a text-level reference expander.',
             note=PPNOTE, technique=PPTECH, design='4/C05'),
 'C06': dict(category='model_checking', text='Directive-free texts (every lexical piece kind alone, at end of input, and in adjacent pairs with 6 separators; CR/LF/CRLF; non-ASCII) through the real preprocess_str MIR with ignore_include and the define table symbolic: Ok, identical text, origin(i)=(path,i) for every byte; the three admissible lexical faults give Preprocess(path, offset<=fault). Fixed point: every successful path of the other program families is re-run on its own output inside the same symbolic execution, strip_comments symbolic. Bounded lexical queries: all_consuming(preprocessor_text) on all byte strings <= N over two alphabets (incl. escaped identifiers with non-ASCII and control characters) accepts exactly the reference language; string_literal_impl.',
             note=PPNOTE, technique=PPTECH, design='4/C06'),
 'C07': dict(category='model_checking', text='One inductive step instead of call histories: for an arbitrary prior state of the three parser thread-locals (stack depths 0..3, top selector any of 9, memo empty/non-empty, all symbolic) each of the five public parser entries AND the start symbol it calls are executed from MIR with the sub-parsers of the start symbol stubbed: the first sub-parser that runs must see the initial state (wherever the reset lives: init(), the entry, the top of the start symbol), the entry hands its input span to its start symbol and returns its result; the static/thread_local items of all crates are enumerated from the sources (none outside the parser crate) and the number of #[recursive_parser] functions is compared with the capacity of nom_recursive\'s flag table selected by the cargo features the workspace enables (64/128/256).',
             note=WNOTE + ' LocalKey::with / RefCell / Vec::clear / PackratStorage::clear modelled as single-thread cells.', technique='MIR symbolic execution of init() and the entry points over a symbolic thread-local pre-state (z3 chooses depths/contents); source scan for global state', design='4/C07'),
 'C08': dict(category='model_checking', text='Totality of the preprocessor, the wrappers and the grammar\'s panic sites: every MIR assert / unwrap / expect / slice / index / arithmetic site reached while the real preprocess_str / preprocess / wrappers run on the program families of C03-C06, C09-C11, C18 and on a totality family (odd `include-macro expansions, multi-byte characters at the end of every piece kind) is a panic obligation discharged by z3 under the path condition (define table, flags, file existence symbolic); missing / non-UTF-8 files give File{path tried} / ReadUtf8(path), wrapped once per include level; concat(..).unwrap() / ret.unwrap() sites of every production body (Engine G); the API wrappers over texts whose first/last bytes have no origin with the error position symbolic; include programs whose top path has no parent directory. A feasible panic is replayed natively (panic message or process abort). Whole-parse panic-freedom on token soup and Display/Debug are outside.',
             note=PPNOTE + ' ' + GNOTE, technique=PPTECH + '; panic obligations = MIR asserts / unwrap / slice models under the path condition', design='4/C08'),
 'C12': dict(category='model_checking', text='V2 scope pairing for every production body: on every exit path (normal, each `?`, early return) the directive stack and the keyword-version stack are as on entry, except version_specifier/keywords_directive (+1 version on success) and endkeywords_directive (-1); plus the trivia alphabet decided by the bounded lexical engine on the real white_space body (blank, tab, form feed, newline accepted as 1-byte texts, vertical tab and other control bytes refused) and bounded lexical queries for comment / white_space / symbol(t). A reported stack effect is confirmed on the real parser by scope depths after parsing probe texts, including texts accepted as a whole after which the keyword-version stack must hold exactly the `begin_keywords still open.',
             note=GNOTE, technique=GTECH, design='4/C12'),
 'C13': dict(category='model_checking', text='is_keyword / begin_keywords / end_keywords / current_version from MIR with the version stack (depth 0..3, top any of 9 selectors) and the word (index into the universe of all reserved words + probes) symbolic: is_keyword(w) <=> w in the reference set of the selector in force (IEEE 1800-2017 22.14, oracle/keywords/*.txt; 1800-2017 when the stack is empty); every specifier pushes its selector, unknown ones push nothing; the lookup may be a loop or slice::binary_search (std algorithm on the real, possibly unsorted table; the word is an index into the sorted universe so comparisons are index comparisons); the identifier lexers (Engine G, is_keyword symbolic) have no successful path under is_keyword and none that skips the lookup; the names of `define and of macro usages are lexed with the set of directive names on top of the version stack (scope in force recorded at every sub-parser call of text_macro_definition / text_macro_usage); bounded lexical queries for keyword(t) and the identifier lexers.',
             note=WNOTE + ' ' + GNOTE, technique='MIR symbolic execution of the keyword lookup over a symbolic word/stack + Engine G on the identifier lexers', design='4/C13'),
 'C14': dict(category='model_checking', text='Mechanisms: strict entries end at the end of the text and the delimiter helpers succeed only after opener, inner, closer (Engine G); garbage-first fixpoint over all productions: no production reachable from the SystemVerilog start symbols outside the compiler-directive grammar can succeed having consumed, at its entry offset, a byte outside printable ASCII / white space (inductive over the grammar, conditional on the nom contracts; tokens that start before the byte are outside); parse_sv_pp/parse_lib_pp map a parser failure at symbolic position p to Error::Parse(origin(p)) and preprocess_str maps a preprocessor-grammar failure at p to Preprocess((path being read, p)) (wrapper MIR, failure kind and position symbolic); concrete lexical faults in the top file and behind an include report an offset not after the fault.',
             note=WNOTE + ' ' + GNOTE, technique='wrapper MIR with symbolic failure position + Engine G facts (per-production VCs and the garbage-first fixpoint, z3) + concolic fault texts', design='4/C14'),
 'C15': dict(category='model_checking', text='Mode switch: parse_X_pp selects the incomplete parser iff allow_incomplete and nothing else differs; never fails: no path of source_text_incomplete / library_text_incomplete returns Err, with `description`/`library_description` proved non-nullable and free of hard failures by the whole-grammar fixpoints; agreement: the incomplete bodies perform the same calls before the repetition and build the node from the same pieces as the strict ones.',
             note=WNOTE + ' ' + GNOTE, technique=GTECH + '; wrapper MIR with allow_incomplete symbolic', design='4/C15'),
 'C16': dict(category='model_checking', text='For every node type of the syntax tree (all 1243 RefNode variants) a bounded tree value is generated from the type tables; the presence of every top-level Option, the length (0..2) of every top-level Vec and the variant of a top-level enum are chosen by the solver (<=1 deviation from the fullest shape at once, 2 in thorough). The real iterators and conversions (derive Node::next / IntoIterator, From<&(T0..T10)>, Vec/Option/Box/Paren/List impls, Iter, EventIter, RefNode::next/into_iter, TryFrom<&T> for Locate, SyntaxTree::get_str/get_str_trim of a node and of its children tuple, Iter::event also on a partially advanced iterator, and the expansions of unwrap_node! (Symbol|Keyword in both orders, WhiteSpace|Locate, Locate) and unwrap_locate! instantiated by guarded hooks) run from MIR and are compared with an independent walk by declared field order: pre-order, balanced nested events, Enter sequence = plain iteration, first-to-last(-non-whitespace) token bounds, first node of the requested kinds in pre-order.',
             note='MIR of nightly rustc; Vec/Option/Box models; reference walk lib/treegen.py.', technique='MIR symbolic execution of the traversal code on solver-chosen tree shapes of every node type', design='4/C16'),
 'C20': dict(category='model_checking', text='Each public wrapper (parse_sv, parse_sv_str, parse_lib, parse_lib_str, parse_sv_pp, parse_lib_pp, preprocess -> preprocess_inner) is executed from MIR with recording stubs for its callees; ignore_include, allow_incomplete, strip_comments, the preprocessor/parser outcome and the error position are symbolic and the file content ranges over a family incl. BOM, CRLF, empty, non-UTF-8, missing. Obligations by callee PARAMETER NAME: same path/defines/include paths, strip_comments=false for the parse family, flags in the right slots, depths 0, file content handed over unchanged, results passed through. Counterexamples are confirmed by a native differential run of all entry points on a probe corpus.',
             note=WNOTE, technique='MIR symbolic execution of the wrappers with recording stubs (argument flow by parameter name); native differential replay', design='4/C20'),
})

NA = {
 'C02': 'the statement quantifies over all sentences of a reference Annex A grammar and over the node kinds of the resulting trees: that needs whole-parse symbolic execution of the 1300-production nom grammar and an independent Annex A generator as oracle, out of reach of the encoders here; the lexical slice of it (keyword boundary, identifier lexers) is decided under C13 and the bounded lexical engine, ordering of non-terminal alternatives is not (see DESIGN.md 4/C02)',
 'C17': 'deciding it means comparing whole parses under two memo configurations; no modular contract captures "independent of eviction" (memoised functions also depend on the keyword-version stack) and whole-parse symbolic execution is out of reach; comparing concrete parses under two capacities would be testing, not solver-based checking (DESIGN.md 4/C17)',
 'C19': 'a consequence of the storage class (thread_local!): there is no interleaving semantics in this code to encode and Kani does not model threads; the enumeration of global state is reported under C07 (DESIGN.md 4/C19)',
}

ALL = ['C%02d' % i for i in range(1, 21)]
PENDING_REASON = 'check not built yet in this session (see DESIGN.md section 6 build order); not claimed until its check exists'

def main():
    checks = []
    for pid in ALL:
        if pid in CHECKS:
            c = CHECKS[pid]
            checks.append({
                'property_id': pid,
                'quick_cmd': './check %s --tier quick' % pid,
                'thorough_cmd': './check %s --tier thorough' % pid,
                'evidence_file': 'evidence/%s.json' % pid,
                'replay_cmd_template': './check %s --replay {path}' % pid,
                'engine': c.get('engine', 'mirsym'),
                'level_claimed': {'category': c['category'], 'text': c['text'], 'design_ref': c['design']},
                'level_note': c['note'],
                'technique': c['technique'],
            })
    na = []
    for pid in ALL:
        if pid not in CHECKS:
            na.append({'property_id': pid, 'reason': NA.get(pid, PENDING_REASON)})
    m = {
        'version': 1,
        'setup_cmd': './setup.sh',
        'hooks': {
            'guard': 'sv_parser_verif',
            'enable': 'RUSTFLAGS="--cfg sv_parser_verif" (set by lib/build.py when it builds svreplay against /repo; the MIR dump of the sv-parser crate is taken with `--cfg sv_parser_verif` passed to that crate only, so that the instantiations of unwrap_node!/unwrap_locate! have bodies)',
            'baseline_off_cmd': 'cd /repo && cargo test --workspace --no-fail-fast --offline',
            'source_commits': ['1624b8e', '9308565'],
            'add_only': True,
        },
        'engines': [
            {'name': 'gengine', 'path': 'lib/gengine.py', 'serves_properties': ['C01', 'C12', 'C13', 'C14', 'C15'],
             'kind_free_text': 'grammar engine: modular verification conditions executed on the MIR of each production body, sub-parsers replaced by contracts, nom primitives by their nom 7 contracts; fixpoints over the whole grammar'},
            {'name': 'mirsym', 'path': 'mirsym/', 'serves_properties': sorted(CHECKS),
             'kind_free_text': 'symbolic executor for rustc MIR dumps (python + z3): real functions of sv-parser-pp / sv-parser / sv-parser-syntaxtree / sv-parser-parser executed on symbolic inputs; forks explored by re-execution; panic obligations'},
            {'name': 'svreplay', 'path': 'svreplay/', 'serves_properties': sorted(CHECKS),
             'kind_free_text': 'native replay/oracle tool linking the real crates with hooks on: runs the real parser for concrete texts (concolic split) and replays every solver counterexample before it is reported'},
        ],
        'checks': checks,
        'not_applicable': na,
        'notes': 'Solver-based checking of the real code: see DESIGN.md. Exit codes of ./check: 0 held, 1 VIOLATION, 2 INCONCLUSIVE (unsupported construct, solver unknown, counterexample that does not replay).',
    }
    with open(os.path.join(HERE, 'MANIFEST.json'), 'w') as fh:
        json.dump(m, fh, indent=1)

if __name__ == '__main__':
    main()
