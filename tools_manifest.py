#!/usr/bin/env python3
"""Generates MANIFEST.json from the table below (keeps it valid and consistent)."""
import json, os
HERE = os.path.dirname(os.path.abspath(__file__))

CHECKS = {
 'C04': dict(
    category='model_checking',
    text='Bounded symbolic execution of the real preprocess_str (rustc MIR) on a family of conditional programs with the initial define table and strip_comments as z3 variables; a reference evaluator of IEEE 22.6 runs under the same variables and z3 decides agreement on every intersection of a real path with a reference case; counterexamples are replayed natively. All define tables over the names used are covered for every program of the family; programs outside the family are not.',
    note='MIR of nightly rustc = code built by stable; std models (String, Vec, HashMap, Option/Result, iterators) as listed in evidence.models_and_stubs; the real nom parser is run natively for the tree of each concrete text; reference evaluator lib/ppref.py.',
    technique='MIR symbolic execution (own interpreter) + z3 path-partition cross-check against a reference evaluator; native replay',
    design='4/C04'),
}

NA = {
}

ALL = ['C%02d' % i for i in range(1, 21)]
PENDING_REASON = 'check not built yet in this session (see DESIGN.md section 6 build order); not claimed until its check exists'

def main():
    checks = []
    for pid in ALL:
        if pid in CHECKS:
            c = CHECKS[pid]
            checks.append({
                'property_id': pid,
                'quick_cmd': './check %s --tier quick' % pid,
                'thorough_cmd': './check %s --tier thorough' % pid,
                'evidence_file': 'evidence/%s.json' % pid,
                'replay_cmd_template': './check %s --replay {path}' % pid,
                'engine': c.get('engine', 'mirsym'),
                'level_claimed': {'category': c['category'], 'text': c['text'], 'design_ref': c['design']},
                'level_note': c['note'],
                'technique': c['technique'],
            })
    na = []
    for pid in ALL:
        if pid not in CHECKS:
            na.append({'property_id': pid, 'reason': NA.get(pid, PENDING_REASON)})
    m = {
        'version': 1,
        'setup_cmd': './setup.sh',
        'hooks': {
            'guard': 'sv_parser_verif',
            'enable': 'RUSTFLAGS="--cfg sv_parser_verif" (set by lib/build.py when it builds svreplay against /repo)',
            'baseline_off_cmd': 'cd /repo && cargo test --workspace --no-fail-fast --offline',
            'source_commits': ['1624b8e'],
            'add_only': True,
        },
        'engines': [
            {'name': 'mirsym', 'path': 'mirsym/', 'serves_properties': sorted(CHECKS),
             'kind_free_text': 'symbolic executor for rustc MIR dumps (python + z3): real functions of sv-parser-pp / sv-parser / sv-parser-syntaxtree / sv-parser-parser executed on symbolic inputs; forks explored by re-execution; panic obligations'},
            {'name': 'svreplay', 'path': 'svreplay/', 'serves_properties': sorted(CHECKS),
             'kind_free_text': 'native replay/oracle tool linking the real crates with hooks on: runs the real parser for concrete texts (concolic split) and replays every solver counterexample before it is reported'},
        ],
        'checks': checks,
        'not_applicable': na,
        'notes': 'Solver-based checking of the real code: see DESIGN.md. Exit codes of ./check: 0 held, 1 VIOLATION, 2 INCONCLUSIVE (unsupported construct, solver unknown, counterexample that does not replay).',
    }
    with open(os.path.join(HERE, 'MANIFEST.json'), 'w') as fh:
        json.dump(m, fh, indent=1)

if __name__ == '__main__':
    main()
