#!/usr/bin/env python3
"""tools/seed_table.py -- markdown table of the seeded changes (seeded/<id>/): what was changed (title line of the
seeder's notes) and which checks reported it (seeded/<id>/detected.txt, written by tools/detect_seed.sh).
Prints to stdout; DESIGN.md section 6 embeds the output."""
import os, re, glob, json

ROOT = '/verif/seeded'


def title(d):
    p = os.path.join(d, 'notes.md')
    if not os.path.exists(p):
        return ''
    for line in open(p):
        t = line.strip().lstrip('#').strip()
        if t:
            t = re.sub(r'^(C\d\d\s*)?(round[- ]?\d,?\s*)?(mutant|mut)\s*\d\s*[-—–:]*\s*', '', t, flags=re.I)
            t = re.sub(r'^C\d\d\s+(round[- ]?\d,?\s*)?(mutant|mut)\s*\d\s*[-—–:]*\s*', '', t, flags=re.I)
            return t.replace('|', '/')[:150]
    return ''


def detected(d):
    p = os.path.join(d, 'detected.txt')
    if not os.path.exists(p):
        return None
    res = {}
    cur = None
    first = {}
    for line in open(p):
        m = re.match(r'== (C\d\d) rc=(\d+) (\d+) violation', line)
        if m:
            cur = m.group(1)
            res[cur] = int(m.group(2))
        elif cur and line.startswith('  role=') and cur not in first:
            t = line.strip()[len('role='):]
            first[cur] = ':'.join(t.split(':')[:2]).strip()
    return res, first


def main():
    rows = []
    for d in sorted(glob.glob(os.path.join(ROOT, 'C*'))):
        sid = os.path.basename(d)
        det = detected(d)
        if det is None:
            caught = '(not run)'
        else:
            res, first = det
            hit = [c for c, rc in res.items() if rc == 1]
            inc = [c for c, rc in res.items() if rc == 2]
            if hit:
                caught = ', '.join('%s (`%s`)' % (c, first.get(c, '').replace('|', '/')[:70]) for c in hit)
            elif inc:
                caught = 'inconclusive (exit 2): ' + ', '.join(inc)
            else:
                caught = '**not caught** (ran ' + ', '.join(res) + ')'
        rows.append('| %s | %s | %s |' % (sid, title(d), caught))
    print('| seeded change | what it does | reported by |')
    print('|---|---|---|')
    for r in rows:
        print(r)


if __name__ == '__main__':
    main()
