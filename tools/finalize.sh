#!/bin/bash
# tools/finalize.sh -- after the serial queues: complete seed metadata, embed the seed table in DESIGN.md, regenerate the
# evidence files from the clean /repo tree, validate evidence and manifest against their schemas.
cd /verif
[ -z "$(git -C /repo status --short)" ] || { echo "/repo is not clean"; exit 9; }
python3 tools/finish_meta.py
python3 - <<'PY'
import subprocess, re
t = subprocess.run(['python3', '/verif/tools/seed_table.py'], capture_output=True, text=True).stdout
p = '/verif/DESIGN.md'; s = open(p).read()
a = s.find('<!-- seed table begin -->'); b = s.find('<!-- seed table end -->')
block = '<!-- seed table begin -->\n' + t + '<!-- seed table end -->'
if a >= 0 and b >= 0:
    s = s[:a] + block + s[b + len('<!-- seed table end -->'):]
else:
    s = s.replace('SEED_TABLE_PLACEHOLDER', block)
open(p, 'w').write(s)
PY
unset VERIF_EVIDENCE_DIR
tools/run_all.sh | tee build/run_all_final.log
python3 tools_manifest.py
python3-vt - <<'PY'
import json, glob, jsonschema
es = json.load(open('/root/.vp/EVIDENCE.schema.json'))
for f in sorted(glob.glob('/verif/evidence/*.json')):
    jsonschema.validate(json.load(open(f)), es)
jsonschema.validate(json.load(open('/verif/MANIFEST.json')), json.load(open('/root/.vp/MANIFEST.schema.json')))
print('evidence and manifest valid:', len(glob.glob('/verif/evidence/*.json')), 'evidence files')
PY
