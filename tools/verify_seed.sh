#!/bin/bash
# tools/verify_seed.sh <PID> <mutN>   -- confirm a seeded change in a scratch worktree of /repo HEAD:
#  applies, full suite passes with it, demo fails with it and passes without it.  Writes seeded/<PID>-<mutN>/{patch.diff,demo.rs,meta.json}
pid=$1; mut=$2
src=${3:-/verif/seeded_incoming}/$pid
id="$pid-$mut${4:-}"
wt=/tmp/seed_$id
out=/verif/seeded/$id
mkdir -p $out
rm -rf $wt; git -C /repo worktree add --detach $wt HEAD >/dev/null 2>&1 || { echo "$id worktree failed"; exit 1; }
cd $wt
export CARGO_TARGET_DIR=$wt/target CARGO_NET_OFFLINE=true
patch=$src/$mut.diff
[ -f /verif/seeded/$id/patch.diff ] && [ -s /verif/seeded/$id/patch.diff ] && [ -f /verif/seeded/$id/.rebased ] && patch=/verif/seeded/$id/patch.diff
applies=yes
if ! git apply --check $patch 2>/dev/null; then
  if git apply --3way $patch >/dev/null 2>&1 && ! git diff --name-only --diff-filter=U | grep -q .; then git reset -q; else applies=no; git reset -q --hard; fi
else git apply $patch; fi
suite=skip; demo_with=skip; demo_without=skip
if [ $applies = yes ]; then
  git diff > $out/patch.diff
  cp $src/${mut}_demo.rs $out/demo.rs 2>/dev/null
  cp $src/$mut.md $out/notes.md 2>/dev/null
  r=$(cargo test --workspace --no-fail-fast --offline 2>&1 | grep -E "^test result" | awk '{p+=$4; f+=$6} END {print p" passed "f" failed"}')
  suite="$r"
  mkdir -p sv-parser/tests; cp $src/${mut}_demo.rs sv-parser/tests/seed_demo.rs
  if cargo test --offline -p sv-parser --test seed_demo >/tmp/seed_${id}_with.log 2>&1; then demo_with=PASS; else demo_with=FAIL; fi
  git checkout -- . 2>/dev/null
  if cargo test --offline -p sv-parser --test seed_demo >/tmp/seed_${id}_without.log 2>&1; then demo_without=PASS; else demo_without=FAIL; fi
fi
python3 - <<PY
import json
json.dump({"id":"$id","property":"$pid","source":"sub-agent given only the property text and a scratch worktree","applies_to_head":"$applies","head":"$(git -C /repo log --format=%h -1)",
 "suite_with_change":"$suite","demo_with_change":"$demo_with","demo_without_change":"$demo_without",
 "confirmed": "$applies"=="yes" and "$suite".endswith(" 0 failed") and "$suite".startswith("120") and "$demo_with"=="FAIL" and "$demo_without"=="PASS"}, open("$out/meta.json","w"), indent=1)
PY
cd /; git -C /repo worktree remove --force $wt; rm -f /tmp/seed_${id}_*.log
echo "$id applies=$applies suite=[$suite] with=$demo_with without=$demo_without"
