#!/bin/bash
# tools/detect_seed.sh <seed-id> [<PID>...]  -- run the checks against a confirmed seeded change:
# git apply seeded/<id>/patch.diff on /repo, ./check <PID>.. (default: the property the change was written for), restore /repo.
# The outcome is kept as seeded/<id>/detected.txt (evidence of these runs goes to build/mutant_evidence, not evidence/).
id=$1; shift
d=/verif/seeded/$id
[ -s $d/patch.diff ] || { echo "no patch for $id"; exit 9; }
pids="$@"; [ -z "$pids" ] && pids=${id%%-*}
LINES_SHOWN=6 timeout 3600 /verif/tools/try_mutant.sh $d/patch.diff $pids 2>&1 | grep -v "conda\|^KNOWN" > $d/detected.txt
echo "#### $id"; cat $d/detected.txt
