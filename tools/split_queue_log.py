#!/usr/bin/env python3
"""tools/split_queue_log.py <log>... -- store the sections '#### r3-Cxx-n' of a serial-queue log as seeded/Cxx-mutn-r3/detected.txt
(later logs override earlier ones)"""
import re, sys, os
for log in sys.argv[1:]:
    cur = None
    buf = {}
    for line in open(log):
        m = re.match(r'#### r([34])-(C\d\d)-(\d)\s*$', line)
        if m:
            cur = '%s-mut%s-r%s' % (m.group(2), m.group(3), m.group(1))
            buf[cur] = []
            continue
        if line.startswith('####'):
            cur = None
            continue
        if cur:
            buf[cur].append(line)
    for sid, lines in buf.items():
        d = os.path.join('/verif/seeded', sid)
        if os.path.isdir(d) and lines:
            with open(os.path.join(d, 'detected.txt'), 'w') as fh:
                fh.writelines(lines)
            print('wrote', sid)
