#!/bin/bash
# run every claimed check (quick tier) on the current /repo tree; prints one line per check
cd /verif
for pid in $(python3 -c "import json; print(' '.join(c['property_id'] for c in json.load(open('MANIFEST.json'))['checks']))"); do
  s=$(date +%s); out=$(timeout 2400 ./check $pid --tier ${TIER:-quick} 2>&1); rc=$?; e=$(date +%s)
  echo "$pid rc=$rc $((e-s))s $(echo "$out" | grep -c '^VIOLATION') viol $(echo "$out" | grep -c '^KNOWN') known $(echo "$out" | grep -c '^INCONCL') inconcl"
  echo "$out" | grep -E "^VIOLATION|^INCONCL" | head -3 | cut -c1-200
done
