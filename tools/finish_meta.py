#!/usr/bin/env python3
"""tools/finish_meta.py -- complete seeded/<id>/meta.json from what is on disk:
  * needs_to_manifest : the seeder's own statement of what the change needs in order to show (from notes.md)
  * commands_run      : what tools/verify_seed.sh ran in the scratch worktree to confirm the change
  * detected_by       : outcome of running the checks against the change (seeded/<id>/detected.txt, written by
                        tools/detect_seed.sh: `git apply` on /repo, ./check <ids>, `git checkout`), if present
Never touches /repo."""
import json, os, re, glob, sys

ROOT = '/verif/seeded'


def needs(notes):
    t = _needs(notes)
    if t:
        m = re.search(r'(Trigger(?:s)?\b|Needed to manifest|What (?:it |exactly )?is needed|What it needs|needs? to manifest)', t)
        if m and m.start() > 0:
            t = t[m.start():]
    return t


def _needs(notes):
    paras = [p.strip() for p in re.split(r'\n\s*\n|\n(?=[-*] )', notes) if p.strip()]
    head = re.compile(r'^[\s*_>#-]*(what (?:it |exactly )?(?:is )?needed|needed to manifest|what it needs|needs? to manifest|trigger(?:s|ed by)?\b|to trigger)', re.I)
    pat = re.compile(r'needed to manifest|needs? to manifest|what (?:it |exactly )?(?:is )?need|\btrigger\b|manifests? only|only manifests|\*\*what it needs', re.I)
    for rx in (head, pat):
        for p in paras:
            if (rx.match(p) if rx is head else rx.search(p)):
                return ' '.join(p.split())[:1500]
    # no explicit statement: the paragraph that says when the change shows
    for p in paras:
        if re.search(r'\bonly (?:when|if|with|for|on)\b|\bshows? (?:only|up)\b|\bvisible only\b|\bneeds\b|\brequires\b', p, re.I):
            return ' '.join(p.split())[:700]
    return ' '.join(' '.join(paras[1:3]).split())[:700] if len(paras) > 1 else None


def detected(d):
    p = os.path.join(d, 'detected.txt')
    if not os.path.exists(p):
        return None
    out = {'checks': {}, 'lines': []}
    cur = None
    for line in open(p):
        m = re.match(r'== (C\d\d) rc=(\d+) (\d+) violation', line)
        if m:
            cur = m.group(1)
            out['checks'][cur] = {'exit': int(m.group(2)), 'violations': int(m.group(3))}
        elif line.startswith(('VIOLATION', '  role', 'INCONCLUSIVE')) and cur:
            if len(out['lines']) < 8:
                out['lines'].append('%s: %s' % (cur, line.strip()[:260]))
    out['caught_by'] = sorted(k for k, v in out['checks'].items() if v['exit'] == 1)
    return out


def main():
    for d in sorted(glob.glob(os.path.join(ROOT, 'C*'))):
        mp = os.path.join(d, 'meta.json')
        if not os.path.exists(mp):
            continue
        m = json.load(open(mp))
        notes = open(os.path.join(d, 'notes.md')).read() if os.path.exists(os.path.join(d, 'notes.md')) else ''
        n = needs(notes)
        if n:
            m['needs_to_manifest'] = n
        m['breaks_property'] = m.get('property')
        m['commands_run'] = [
            'git -C /repo worktree add --detach /tmp/seed_%s HEAD   # scratch worktree, removed afterwards' % m['id'],
            'git apply patch.diff',
            'cargo test --workspace --no-fail-fast --offline   # %s' % m.get('suite_with_change'),
            'cargo test --offline -p sv-parser --test seed_demo   # demo.rs with the change: %s' % m.get('demo_with_change'),
            'git checkout -- . && cargo test --offline -p sv-parser --test seed_demo   # demo.rs without the change: %s' % m.get('demo_without_change'),
        ]
        det = detected(d)
        if det:
            m['detected_by'] = det
        with open(mp, 'w') as fh:
            json.dump(m, fh, indent=1)
    print('done')


if __name__ == '__main__':
    sys.exit(main())
