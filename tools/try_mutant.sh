#!/bin/bash
# usage: tools/try_mutant.sh <patch.diff> <PID> [<PID>...]   -- applies the patch to /repo, runs the checks, restores /repo
diff="$1"; shift
cd /repo || exit 9
if ! git diff --quiet; then echo "/repo not clean"; exit 9; fi
if git apply --check "$diff" 2>/dev/null; then
  git apply "$diff"
else
  if ! git apply --3way "$diff" >/dev/null 2>&1 || git diff --name-only --diff-filter=U | grep -q .; then
    git reset -q --hard HEAD; echo "patch does not apply cleanly: $diff"; exit 8
  fi
  git reset -q   # unstage, keep working tree changes
fi
cd /verif
export VERIF_EVIDENCE_DIR=/verif/build/mutant_evidence
for pid in "$@"; do
  out=$(./check "$pid" --tier "${TIER:-quick}" 2>&1); rc=$?
  echo "== $pid rc=$rc $(echo "$out" | grep -c '^VIOLATION') violation(s)"
  echo "$out" | grep -E "^VIOLATION|^  role|^INCONCLUSIVE|^KNOWN" | cut -c1-300 | head -${LINES_SHOWN:-6}
done
git -C /repo reset -q --hard HEAD; git -C /repo status --short | head -3
