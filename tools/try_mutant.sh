#!/bin/bash
# usage: tools/try_mutant.sh <patch.diff> <PID> [<PID>...]   -- applies the patch to /repo, runs the checks, restores /repo
diff="$1"; shift
cd /repo || exit 9
if ! git diff --quiet; then echo "/repo not clean"; exit 9; fi
if ! git apply --check "$diff" 2>/dev/null; then
  if ! git apply --3way --check "$diff" 2>/dev/null; then echo "patch does not apply: $diff"; exit 8; fi
fi
git apply "$diff" 2>/dev/null || git apply --3way "$diff"
cd /verif
for pid in "$@"; do
  out=$(./check "$pid" --tier "${TIER:-quick}" 2>&1); rc=$?
  echo "== $pid rc=$rc $(echo "$out" | grep -c '^VIOLATION') violation(s)"
  echo "$out" | grep -E "^VIOLATION|^  role|^INCONCLUSIVE|^KNOWN" | cut -c1-300 | head -${LINES_SHOWN:-6}
done
git -C /repo checkout -- . ; git -C /repo status --short | head -3
