#!/bin/bash
# offline setup: build svreplay (real crates, hooks on) and the MIR dumps of /repo's current tree
set -e
cd "$(dirname "$0")"
export CARGO_NET_OFFLINE=true
mkdir -p build/scratch build/replay evidence
python3-vt lib/build.py
