"""Type tables read from the Rust sources of /repo on every run: enum variant order, struct field
order and field types.  Regex/bracket based (the definitions are plain)."""
import os, re, glob
from mir import split_top, match_close, find_top

BUILTIN_ENUMS = {
    'Option': ['None', 'Some'],
    'Result': ['Ok', 'Err'],
    'ControlFlow': ['Continue', 'Break'],
    'Ordering': ['Less', 'Equal', 'Greater'],  # discriminants -1,0,1 handled specially
    'Cow': ['Borrowed', 'Owned'],
    'Err': ['Incomplete', 'Error', 'Failure'],  # nom::Err
    'Needed': ['Unknown', 'Size'],
    'Bound': ['Included', 'Excluded', 'Unbounded'],
}


def strip_comments(src):
    out = []
    i = 0
    n = len(src)
    while i < n:
        c = src[i]
        if c == '/' and src[i + 1:i + 2] == '/':
            j = src.find('\n', i)
            if j < 0:
                break
            i = j
            continue
        if c == '/' and src[i + 1:i + 2] == '*':
            j = src.find('*/', i + 2)
            i = j + 2
            continue
        if c == '"':
            j = i + 1
            while j < n and src[j] != '"':
                if src[j] == '\\':
                    j += 1
                j += 1
            out.append(src[i:j + 1])
            i = j + 1
            continue
        out.append(c)
        i += 1
    return ''.join(out)


def strip_attrs(body):
    out = []
    i = 0
    n = len(body)
    while i < n:
        if body[i] == '#' and body[i + 1:i + 2] == '[':
            j = match_close(body, i + 1)
            i = j + 1
            continue
        out.append(body[i])
        i += 1
    return ''.join(out)


class TypeDefs:
    def __init__(self):
        self.enums = {k: list(v) for k, v in BUILTIN_ENUMS.items()}
        self.enum_payload = {}   # (enum, variant) -> list of field type strings (tuple) / names
        self.structs = {}        # name -> [(fieldname, typestr)]
        self.generics = {}       # name -> [param names]
        self.variant_owner = {}  # variant -> set(enum)

    def scan_file(self, path):
        src = strip_comments(open(path, encoding='utf-8').read())
        for m in re.finditer(r'\b(struct|enum)\s+(\w+)\s*(<[^{(;]*>)?\s*(where[^{]*)?([{(;])', src):
            kind, name, gen, _, opener = m.groups()
            params = []
            if gen:
                for g in split_top(gen[1:-1]):
                    g = g.strip()
                    if g.startswith("'"):
                        continue
                    params.append(g.split(':')[0].strip())
            if opener == ';':
                if kind == 'struct':
                    self.structs[name] = []
                    self.generics[name] = params
                continue
            start = m.end() - 1
            close = match_close(src, start)
            body = strip_attrs(src[start + 1:close])
            if kind == 'struct':
                fields = []
                if opener == '{':
                    for part in split_top(body):
                        part = part.strip()
                        if not part:
                            continue
                        part = re.sub(r'^pub(\([^)]*\))?\s+', '', part)
                        k = part.index(':')
                        fields.append((part[:k].strip(), part[k + 1:].strip()))
                else:
                    for i, part in enumerate(split_top(body)):
                        part = part.strip()
                        if not part:
                            continue
                        part = re.sub(r'^pub(\([^)]*\))?\s+', '', part)
                        fields.append((str(i), part))
                self.structs[name] = fields
                self.generics[name] = params
            else:
                variants = []
                for part in split_top(body):
                    part = part.strip()
                    if not part:
                        continue
                    mm = re.match(r'(\w+)\s*(.*)$', part, re.S)
                    vname, rest = mm.group(1), mm.group(2).strip()
                    variants.append(vname)
                    if rest.startswith('('):
                        self.enum_payload[(name, vname)] = [x.strip() for x in split_top(rest[1:match_close(rest, 0)]) if x.strip()]
                    elif rest.startswith('{'):
                        fl = []
                        for fp in split_top(rest[1:match_close(rest, 0)]):
                            fp = fp.strip()
                            if fp:
                                k = fp.index(':')
                                fl.append(fp[k + 1:].strip())
                        self.enum_payload[(name, vname)] = fl
                    else:
                        self.enum_payload[(name, vname)] = []
                self.enums[name] = variants
                self.generics[name] = params

    def finish(self):
        self.variant_owner = {}
        for e, vs in self.enums.items():
            for v in vs:
                self.variant_owner.setdefault(v, set()).add(e)

    def variant_index(self, enum, variant):
        vs = self.enums.get(enum)
        if vs is None:
            raise KeyError('unknown enum %s' % enum)
        i = vs.index(variant)
        if enum == 'Ordering':
            return i - 1
        return i


def find_generated_any_node(target_dirs):
    best = None
    for td in target_dirs:
        for p in glob.glob(os.path.join(td, '**', 'build', 'sv-parser-syntaxtree-*', 'out', 'any_node.rs'), recursive=True):
            if best is None or os.path.getmtime(p) > os.path.getmtime(best):
                best = p
    return best


def load_typedefs(repo='/repo', target_dirs=('/verif/build/mir-target',)):
    td = TypeDefs()
    files = []
    for d in ('sv-parser-syntaxtree/src', 'sv-parser-pp/src', 'sv-parser-error/src', 'sv-parser/src'):
        files += glob.glob(os.path.join(repo, d, '**', '*.rs'), recursive=True)
    files += [os.path.join(repo, 'sv-parser-parser/src/lib.rs'), os.path.join(repo, 'sv-parser-parser/src/utils.rs')]
    gen = find_generated_any_node(target_dirs)
    if gen is None:
        raise RuntimeError('generated any_node.rs not found (build the MIR dumps first)')
    files.append(gen)
    for f in sorted(files):
        td.scan_file(f)
    td.finish()
    td.generated_any_node = gen
    return td


# ------------------------------------------------------------------------------------------------
# type expressions

def parse_type(t):
    """-> ('name', base, [args]) | ('tuple', [elems]) | ('ref', inner) | ('slice', inner)"""
    t = t.strip()
    if t.startswith('&'):
        t2 = t[1:].strip()
        t2 = re.sub(r"^'\w+\s+", '', t2)
        if t2.startswith('mut '):
            t2 = t2[4:]
        return ('ref', parse_type(t2))
    if t.startswith('('):
        close = match_close(t, 0)
        inner = t[1:close].strip()
        if not inner:
            return ('tuple', [])
        parts = split_top(inner)
        if parts and parts[-1] == '':
            parts = parts[:-1]
        return ('tuple', [parse_type(p) for p in parts])
    if t.startswith('['):
        inner = t[1:match_close(t, 0)]
        k = find_top(inner, ';')
        if k >= 0:
            inner = inner[:k]
        return ('slice', parse_type(inner))
    k = t.find('<')
    if k < 0:
        base = t.split('::')[-1]
        return ('name', base, [])
    base = t[:k].rstrip(':').split('::')[-1]
    close = match_close(t, k)
    args = []
    for a in split_top(t[k + 1:close]):
        a = a.strip()
        if not a or a.startswith("'"):
            continue
        args.append(parse_type(a))
    return ('name', base, args)


def subst(ty, env):
    k = ty[0]
    if k == 'name':
        if not ty[2] and ty[1] in env:
            return env[ty[1]]
        return ('name', ty[1], [subst(a, env) for a in ty[2]])
    if k == 'tuple':
        return ('tuple', [subst(a, env) for a in ty[1]])
    return (k, subst(ty[1], env))
