"""Import a syntax tree printed with `{:?}` by the real parser (svreplay) as interpreter values.
Type-directed: field order and enum discriminants come from the type tables (tables.py)."""
import re
from values import Struct, Enum, Tup, VecV, BoxV
from tables import parse_type, subst

_tok = re.compile(r'[A-Za-z_]\w*|\d+|[{}()\[\],:]')


class TreeImportError(Exception):
    pass


class Importer:
    def __init__(self, td):
        self.td = td
        self._ft = {}

    def field_types(self, name):
        r = self._ft.get(name)
        if r is None:
            r = [(fn, parse_type(ft)) for fn, ft in self.td.structs[name]]
            self._ft[name] = r
        return r

    def parse(self, root_type, text):
        self.toks = _tok.findall(text)
        self.pos = 0
        v = self.value(parse_type(root_type), {})
        if self.pos != len(self.toks):
            raise TreeImportError('trailing tokens at %d: %r' % (self.pos, self.toks[self.pos:self.pos + 8]))
        return v

    def expect(self, t):
        if self.toks[self.pos] != t:
            raise TreeImportError('expected %r got %r at %d (%r)' % (t, self.toks[self.pos], self.pos, self.toks[max(0, self.pos - 6):self.pos + 6]))
        self.pos += 1

    def peek(self):
        return self.toks[self.pos]

    def value(self, ty, env):
        k = ty[0]
        if k == 'tuple':
            self.expect('(')
            out = []
            for i, et in enumerate(ty[1]):
                if i:
                    self.expect(',')
                out.append(self.value(et, env))
            if self.peek() == ',':
                self.pos += 1
            self.expect(')')
            return Tup(out)
        if k == 'ref':
            return self.value(ty[1], env)
        if k != 'name':
            raise TreeImportError('type %r' % (ty,))
        base, args = ty[1], ty[2]
        if not args and base in env:
            return self.value(env[base], {})
        if base in ('usize', 'u32', 'u64', 'u8', 'i32'):
            t = self.toks[self.pos]
            self.pos += 1
            return int(t)
        if base == 'Vec':
            self.expect('[')
            out = []
            et = subst(args[0], env)
            while self.peek() != ']':
                if out:
                    self.expect(',')
                    if self.peek() == ']':
                        break
                out.append(self.value(et, {}))
            self.expect(']')
            return VecV(out)
        if base == 'Option':
            t = self.toks[self.pos]
            self.pos += 1
            if t == 'None':
                return Enum('Option', 'None', 0, [])
            if t != 'Some':
                raise TreeImportError('Option: %r' % t)
            self.expect('(')
            v = self.value(subst(args[0], env), {})
            if self.peek() == ',':
                self.pos += 1
            self.expect(')')
            return Enum('Option', 'Some', 1, [v])
        if base == 'Box':
            return BoxV(self.value(subst(args[0], env), {}))
        td = self.td
        if base in td.structs:
            params = td.generics.get(base, [])
            env2 = {p: subst(a, env) for p, a in zip(params, args)}
            self.expect(base)
            fts = self.field_types(base)
            if self.peek() == '{':
                self.expect('{')
                out = []
                for i, (fn, ft) in enumerate(fts):
                    if i:
                        self.expect(',')
                    self.expect(fn)
                    self.expect(':')
                    out.append(self.value(ft, env2))
                if self.peek() == ',':
                    self.pos += 1
                self.expect('}')
            else:
                self.expect('(')
                out = []
                for i, (fn, ft) in enumerate(fts):
                    if i:
                        self.expect(',')
                    out.append(self.value(ft, env2))
                if self.peek() == ',':
                    self.pos += 1
                self.expect(')')
            return Struct(base, out)
        if base in td.enums:
            params = td.generics.get(base, [])
            env2 = {p: subst(a, env) for p, a in zip(params, args)}
            v = self.toks[self.pos]
            self.pos += 1
            if v not in td.enums[base]:
                raise TreeImportError('variant %s of %s' % (v, base))
            payload = td.enum_payload[(base, v)]
            out = []
            if payload:
                self.expect('(')
                for i, pt in enumerate(payload):
                    if i:
                        self.expect(',')
                    out.append(self.value(parse_type(pt), env2))
                if self.peek() == ',':
                    self.pos += 1
                self.expect(')')
            return Enum(base, v, td.variant_index(base, v), out)
        raise TreeImportError('unknown type %s' % base)
