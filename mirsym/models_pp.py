"""Models for the environment of the preprocessor / API wrappers: nom_locate span, the real parser as
native oracle (concolic split), symbolic file system, format!."""
import os, re
import z3
from values import *
from interp import Inconclusive, RustPanic, rt_type
from models import model, TABLE, some, none, ok, err, deref, sv, slen, PyIter, opt_of
from tree import Importer


# ---- span / parser oracle ------------------------------------------------------------------------
@model('SpanInfo::default')
def _(it, ci, a, d):
    return Struct('SpanInfo', [])


@model('LocatedSpan::new_extra')
def _(it, ci, a, d):
    return Opaque('Span', {'text': sv(a[0]), 'off': 0})


@model('all_consuming')
def _(it, ci, a, d):
    return Opaque('AllConsuming', a[0])


def _native(it):
    n = it.env.get('native')
    if n is None:
        raise Inconclusive('native oracle not configured')
    return n


def _importer(it):
    imp = it.env.get('importer')
    if imp is None:
        imp = Importer(it.td)
        it.env['importer'] = imp
    return imp


def native_parse(it, which, text, root_type):
    """run the REAL parser natively; returns Result value (Ok((rest_span, tree)) | Err(nom::Err))"""
    nat = _native(it)
    r = nat.request({'cmd': 'raw', 'parser': which, 'text': text})
    it.env.setdefault('parsed_texts', []).append((which, text))
    if r.get('crash') or r.get('panic'):
        raise RustPanic('native parser crashed/panicked on %r: %s' % (text[:60], r))
    if r['ok']:
        cache = it.env.setdefault('tree_cache', {})
        key = (which, text)
        # a fresh import per path (values are mutable)
        tree = _importer(it).parse(root_type, r['tree'])
        rest = Opaque('Span', {'text': text[r['consumed']:] if False else '', 'off': r['consumed']})
        return ok(Tup([rest, tree]))
    kind = r['kind']
    ge = Opaque('GreedyError', {'pos': r.get('pos')})
    if kind == 'Incomplete':
        return err(Enum('Err', 'Incomplete', 0, [UNIT]))
    return err(Enum('Err', kind, 1 if kind == 'Error' else 2, [ge]))


@model('AllConsuming::call')
def _(it, ci, a, d):
    inner = a[0].data
    span = a[1]
    name = inner.path.split('::')[-1] if type(inner) is FnItem else None
    if name != 'pp_parser':
        raise Inconclusive('all_consuming(%r)' % (inner,))
    return native_parse(it, 'pp_all', span.data['text'], 'PreprocessorText')


@model('error_position')
def _(it, ci, a, d):
    e = deref(a[0])
    p = e.data['pos']
    return none() if p is None else some(p)


# ---- file system ---------------------------------------------------------------------------------
class SymFS:
    """symbolic file system: for each path, existence is a z3 Bool (or concrete) and the content is
    one of a few alternatives (text or None = not valid UTF-8), chosen by z3 Bools."""

    def __init__(self, cwd_files=None):
        self.files = {}      # path -> {'exists': bool|z3, 'alts': [(cond, content|None)]}
        self.opened = []     # log of File::open calls (paths)
        self.reads = []

    def add(self, path, contents, exists=True):
        """contents: list of alternatives (str or None for invalid utf-8)"""
        if len(contents) == 1:
            alts = [(True, contents[0])]
        else:
            sel = [z3.Bool('fs_alt_%s_%d' % (path, i)) for i in range(len(contents) - 1)]
            alts = []
            prev = []
            for i, c in enumerate(contents):
                if i < len(sel):
                    cond = z3.And(prev + [sel[i]]) if prev else sel[i]
                    prev = prev + [z3.Not(sel[i])]
                else:
                    cond = z3.And(prev)
                alts.append((cond, c))
        self.files[path] = {'exists': exists, 'alts': alts}

    def exists(self, path):
        f = self.files.get(path)
        if f is None:
            return False
        return f['exists']


def _fs(it):
    fs = it.env.get('fs')
    if fs is None:
        raise Inconclusive('file system model not configured')
    return fs


def _pstr(v):
    v = deref(v)
    if type(v) is PathV:
        return v.s
    return sv(v)


@model('Path::exists')
def _(it, ci, a, d):
    return _fs(it).exists(_pstr(a[0]))


@model('Path::is_relative')
def _(it, ci, a, d):
    return not _pstr(a[0]).startswith('/')


@model('Path::is_absolute')
def _(it, ci, a, d):
    return _pstr(a[0]).startswith('/')


@model('Path::join')
def _(it, ci, a, d):
    base = _pstr(a[0])
    p = _pstr(a[1])
    if p.startswith('/'):
        return PathV(p)
    if base == '':
        return PathV(p)
    if base.endswith('/'):
        return PathV(base + p)
    return PathV(base + '/' + p)


@model('File::open')
def _(it, ci, a, d):
    fs = _fs(it)
    p = _pstr(a[0])
    fs.opened.append(p)
    it.env.setdefault('opened', []).append(p)
    ex = fs.exists(p)
    if it.decide(ex, 'fs_exists:' + p):
        return ok(Opaque('File', p))
    return err(Opaque('IoError', {'path': p, 'kind': 'NotFound'}))


@model('BufReader::new')
def _(it, ci, a, d):
    return Opaque('BufReader', a[0].data)


@model('BufReader::read_to_string', 'File::read_to_string')
def _(it, ci, a, d):
    fs = _fs(it)
    p = deref(a[0]).data
    s = deref(a[1])
    f = fs.files[p]
    alts = f['alts']
    k = it.choose([c for c, _ in alts], 'fs_content:' + p) if len(alts) > 1 else 0
    content = alts[k][1]
    it.env.setdefault('reads', []).append((p, k))
    if content is None:
        return err(Opaque('IoError', {'path': p, 'kind': 'InvalidData'}))
    s.s = sv(s) + content
    return ok(len(content.encode('utf-8')))


@model('fs::read_to_string', 'std::fs::read_to_string')
def _(it, ci, a, d):
    """std::fs::read_to_string(path) = File::open + read_to_string (same symbolic file system, same log of opened files)"""
    fs = _fs(it)
    p = _pstr(a[0])
    fs.opened.append(p)
    it.env.setdefault('opened', []).append(p)
    if not it.decide(fs.exists(p), 'fs_exists:' + p):
        return err(Opaque('IoError', {'path': p, 'kind': 'NotFound'}))
    alts = fs.files[p]['alts']
    k = it.choose([c for c, _ in alts], 'fs_content:' + p) if len(alts) > 1 else 0
    content = alts[k][1]
    it.env.setdefault('reads', []).append((p, k))
    if content is None:
        return err(Opaque('IoError', {'path': p, 'kind': 'InvalidData'}))
    return ok(StringV(content))


@model('fs::read', 'std::fs::read')
def _(it, ci, a, d):
    r = TABLE['fs::read_to_string'](it, ci, a, d)
    r = it.concretize(r)
    if r.variant == 'Ok':
        return ok(VecV(list(sv(r.fields[0]).encode('utf-8'))))
    if r.fields[0].data.get('kind') == 'InvalidData':
        raise Inconclusive('fs::read of a file whose modelled content is "not valid UTF-8" (bytes not modelled)')
    return r


@model('fs::metadata', 'std::fs::metadata', 'Path::metadata')
def _(it, ci, a, d):
    fs = _fs(it)
    p = _pstr(a[0])
    if not it.decide(fs.exists(p), 'fs_exists:' + p):
        return err(Opaque('IoError', {'path': p, 'kind': 'NotFound'}))
    alts = fs.files[p]['alts']
    k = it.choose([c for c, _ in alts], 'fs_content:' + p) if len(alts) > 1 else 0
    content = alts[k][1]
    return ok(Opaque('Metadata', {'len': len(content.encode('utf-8')) if content is not None else 3, 'path': p}))


@model('Metadata::len')
def _(it, ci, a, d):
    return deref(a[0]).data['len']


@model('Metadata::is_file')
def _(it, ci, a, d):
    return True


@model('Path::parent')
def _(it, ci, a, d):
    # std: the path without its final component; None for "" and for a root
    p = _pstr(a[0])
    q = p.rstrip('/') if p != '/' else p
    if q in ('', '/'):
        return none()
    if '/' not in q:
        return some(Ref([PathV('')], 0))
    head = q.rsplit('/', 1)[0]
    return some(Ref([PathV(head if head else '/')], 0))


@model('Path::file_name')
def _(it, ci, a, d):
    p = _pstr(a[0]).rstrip('/')
    if not p or p.endswith('..'):
        return none()
    return some(p.rsplit('/', 1)[-1])


@model('Path::to_path_buf', 'PathBuf::as_path')
def _(it, ci, a, d):
    return PathV(_pstr(a[0])) if a else PathV('')


@model('Path::as_os_str', 'PathBuf::as_os_str')
def _(it, ci, a, d):
    return _pstr(a[0])


@model('OsStr::is_empty')
def _(it, ci, a, d):
    return sv(a[0]) == ''


@model('Path::starts_with')
def _(it, ci, a, d):
    p, q = _pstr(a[0]), _pstr(a[1])
    return p == q or p.startswith(q.rstrip('/') + '/')


# ---- format! ---------------------------------------------------------------------------------------
def fmt_args(template, args):
    """decode rustc's compact format template (bytes as latin-1 str) against display args"""
    out = []
    i = 0
    ai = 0
    bs = [ord(c) for c in template]
    while i < len(bs):
        b = bs[i]
        if b == 0:
            break
        if b < 0x80:
            out.append(bytes(bs[i + 1:i + 1 + b]).decode('utf-8'))
            i += 1 + b
        elif b == 0xc0:
            v = args[ai]
            ai += 1
            if type(v) is Opaque and v.kind == 'FmtArg':
                v = v.data
            v = deref(v)
            if isinstance(v, bool):
                out.append('true' if v else 'false')
            elif isinstance(v, int):
                out.append(str(v))
            elif is_sym(v):
                raise Inconclusive('format of symbolic value')
            else:
                out.append(sv(v))
            i += 1
        else:
            raise Inconclusive('format template byte 0x%02x' % b)
    return ''.join(out)


def format_hook(it, a):
    args = a[0]
    if type(args) is Opaque and args.kind == 'FmtArguments':
        tmpl = args.data[0]
        argv = deref(args.data[1]).fields if len(args.data) > 1 else []
        return StringV(fmt_args(tmpl, argv))
    raise Inconclusive('format! arguments %r' % (args,))


@model('Box::new', 'boxed::box_new')
def _(it, ci, a, d):
    return BoxV(a[0])
