"""Bridge to svreplay (the real code, run natively)."""
import json, os, subprocess, tempfile, shutil

SVREPLAY = os.environ.get('SVREPLAY', '/verif/build/svreplay-target/debug/svreplay')


class NativeError(Exception):
    pass


class Native:
    def __init__(self, exe=None):
        self.exe = exe or SVREPLAY
        self.p = None
        self.cache = {}
        self.calls = 0

    def start(self):
        if self.p is None or self.p.poll() is not None:
            self.p = subprocess.Popen([self.exe], stdin=subprocess.PIPE, stdout=subprocess.PIPE,
                                      stderr=subprocess.DEVNULL, text=True, bufsize=1)

    def request(self, req, cache=True):
        key = json.dumps(req, sort_keys=True) if cache else None
        if cache and key in self.cache:
            return self.cache[key]
        self.start()
        self.calls += 1
        try:
            self.p.stdin.write(json.dumps(req) + '\n')
            self.p.stdin.flush()
            line = self.p.stdout.readline()
        except BrokenPipeError:
            line = ''
        if not line:
            rc = self.p.poll()
            self.p = None
            r = {'ok': False, 'crash': True, 'rc': rc}
        else:
            r = json.loads(line)
        if cache:
            self.cache[key] = r
        return r

    def once(self, req, timeout=60):
        """run a single request in a fresh process (stack overflow / abort is observed)"""
        d = tempfile.mkdtemp(prefix='svreplay_', dir=os.environ.get('VERIF_SCRATCH', '/verif/build/scratch'))
        try:
            f = os.path.join(d, 'req.json')
            with open(f, 'w') as fh:
                json.dump(req, fh)
            try:
                p = subprocess.run([self.exe, '--once', f], capture_output=True, text=True, timeout=timeout)
            except subprocess.TimeoutExpired:
                return {'ok': False, 'timeout': True}
            if p.returncode != 0 or not p.stdout.strip():
                return {'ok': False, 'crash': True, 'rc': p.returncode, 'stderr': p.stderr[-400:]}
            return json.loads(p.stdout.strip().split('\n')[-1])
        finally:
            shutil.rmtree(d, ignore_errors=True)

    def close(self):
        if self.p is not None:
            try:
                self.p.stdin.close()
                self.p.wait(timeout=5)
            except Exception:
                self.p.kill()
            self.p = None


_scratch_root = os.environ.get('VERIF_SCRATCH', '/verif/build/scratch')
os.makedirs(_scratch_root, exist_ok=True)


class Scratch:
    """temporary directory with files (for preprocess / parse requests that touch the file system)"""

    def __init__(self, files=None):
        self.dir = tempfile.mkdtemp(prefix='case_', dir=_scratch_root)
        for name, content in (files or {}).items():
            if os.path.isabs(name) or '..' in name.split('/'):
                raise ValueError('scratch files must stay inside the scratch directory: %r' % name)
            p = os.path.join(self.dir, name)
            os.makedirs(os.path.dirname(p), exist_ok=True)
            mode = 'wb' if isinstance(content, bytes) else 'w'
            with open(p, mode) as fh:
                fh.write(content)

    def __enter__(self):
        return self

    def __exit__(self, *a):
        shutil.rmtree(self.dir, ignore_errors=True)
