"""Runtime values of the MIR interpreter."""
import z3


class Struct:
    __slots__ = ('ty', 'fields')

    def __init__(self, ty, fields):
        self.ty = ty
        self.fields = fields

    def __repr__(self):
        return '%s%r' % (self.ty, self.fields)


class Enum:
    __slots__ = ('ty', 'variant', 'idx', 'fields')

    def __init__(self, ty, variant, idx, fields):
        self.ty = ty
        self.variant = variant
        self.idx = idx
        self.fields = fields

    def __repr__(self):
        return '%s::%s%r' % (self.ty, self.variant, self.fields)


class Tup:
    __slots__ = ('fields',)

    def __init__(self, fields):
        self.fields = fields

    def __repr__(self):
        return 'Tup%r' % (self.fields,)


class Arr:
    __slots__ = ('fields',)

    def __init__(self, fields):
        self.fields = fields

    def __repr__(self):
        return 'Arr%r' % (self.fields,)


class Closure:
    __slots__ = ('span', 'fields', 'owner')

    def __init__(self, span, fields, owner=None):
        self.span = span
        self.fields = fields
        self.owner = owner     # name of the function that created it (closures expanded from one macro share their span)

    def __repr__(self):
        return 'Closure(%s)' % self.span


class Ref:
    """pointer to the location lst[idx]"""
    __slots__ = ('lst', 'idx')

    def __init__(self, lst, idx):
        self.lst = lst
        self.idx = idx

    def get(self):
        return self.lst[self.idx]

    def set(self, v):
        self.lst[self.idx] = v

    def __repr__(self):
        try:
            return '&%r' % (self.lst[self.idx],)
        except Exception:
            return '&<dangling>'


class BoxV:
    __slots__ = ('cell',)

    def __init__(self, v):
        self.cell = [v]

    def __repr__(self):
        return 'Box(%r)' % (self.cell[0],)


class VecV:
    __slots__ = ('fields',)

    def __init__(self, fields=None):
        self.fields = fields if fields is not None else []

    def __repr__(self):
        return 'Vec%r' % (self.fields,)


class StringV:
    """owned String; content concrete (s) or abstract (s None, length symbolic in .n)"""
    __slots__ = ('s', 'n', 'guard')

    def __init__(self, s, n=None):
        self.s = s
        self.n = n
        self.guard = None

    def __repr__(self):
        if self.s is None:
            return 'String<len %s>' % self.n
        return 'String(%r)' % self.s


class AbsStr:
    """&str whose content is abstract; only the length (z3 Int or int) is known"""
    __slots__ = ('n',)

    def __init__(self, n):
        self.n = n

    def __repr__(self):
        return 'str<len %s>' % self.n


class PathV:
    """PathBuf / &Path"""
    __slots__ = ('s',)

    def __init__(self, s):
        self.s = s

    def __repr__(self):
        return 'Path(%r)' % (self.s,)


class FnItem:
    __slots__ = ('path',)

    def __init__(self, path):
        self.path = path

    def __repr__(self):
        return 'fn(%s)' % self.path[:60]


class Choice:
    """value not yet chosen: list of (z3 condition, value); conditions are mutually exclusive and
    exhaustive under the path condition.  Inspected lazily -> fork."""
    __slots__ = ('alts', 'label')

    def __init__(self, alts, label=''):
        self.alts = alts
        self.label = label

    def __repr__(self):
        return 'Choice(%s:%d)' % (self.label, len(self.alts))


class Opaque:
    """opaque host object (iterators, maps...) implemented by models"""
    __slots__ = ('kind', 'data')

    def __init__(self, kind, data):
        self.kind = kind
        self.data = data

    def __repr__(self):
        return '<%s>' % self.kind


class Char:
    __slots__ = ('c',)

    def __init__(self, c):
        self.c = c

    def __eq__(self, o):
        return isinstance(o, Char) and o.c == self.c

    def __hash__(self):
        return hash(('Char', self.c))

    def __repr__(self):
        return 'Char(%r)' % self.c


UNIT = Tup([])


def is_sym(v):
    return isinstance(v, z3.ExprRef)


SHARED = (VecV, StringV, BoxV, Opaque, PathV)


def copyval(v):
    """value copy for `copy P` / `move P`: aggregates get a fresh shell, heap-owning containers are
    shared (a MIR `copy` of a non-Copy value is a move whose source is dead)."""
    t = type(v)
    if t is Struct:
        return Struct(v.ty, [copyval(x) for x in v.fields])
    if t is Enum:
        return Enum(v.ty, v.variant, v.idx, [copyval(x) for x in v.fields])
    if t is Tup:
        if not v.fields:
            return v
        return Tup([copyval(x) for x in v.fields])
    if t is Arr:
        return Arr([copyval(x) for x in v.fields])
    if t is Closure:
        return Closure(v.span, [copyval(x) for x in v.fields], getattr(v, 'owner', None))
    return v


def deep_clone(v):
    """Clone::clone semantics: owned containers are duplicated, references are copied."""
    t = type(v)
    if t is Struct:
        return Struct(v.ty, [deep_clone(x) for x in v.fields])
    if t is Enum:
        return Enum(v.ty, v.variant, v.idx, [deep_clone(x) for x in v.fields])
    if t is Tup:
        return Tup([deep_clone(x) for x in v.fields])
    if t is Arr:
        return Arr([deep_clone(x) for x in v.fields])
    if t is VecV:
        return VecV([deep_clone(x) for x in v.fields])
    if t is BoxV:
        return BoxV(deep_clone(v.cell[0]))
    if t is StringV:
        r = StringV(v.s, v.n)
        r.guard = v.guard
        return r
    if t is PathV:
        return PathV(v.s)
    if t is Choice:
        return Choice([(c, deep_clone(x)) for c, x in v.alts], v.label)
    if t is Opaque:
        cl = getattr(v.data, 'clone', None)
        if cl is None:
            raise NotImplementedError('clone of opaque %s' % v.kind)
        return Opaque(v.kind, cl())
    return v
