"""Parser for rustc's textual MIR (-Zunpretty=mir) -- lazy, per function.

Only the constructs that occur in the four sv-parser crates are supported; anything else raises
MirParseError (the checks turn that into INCONCLUSIVE, never into a pass).
"""
import os, re, pickle, hashlib


class MirParseError(Exception):
    pass


# ------------------------------------------------------------------------------------------------
# generic text helpers

OPEN = '([{<'
CLOSE = ')]}>'


def _skip_quote(s, i):
    """s[i] is '"' -> index after closing quote"""
    j = i + 1
    n = len(s)
    while j < n:
        c = s[j]
        if c == '\\':
            j += 2
            continue
        if c == '"':
            return j + 1
        j += 1
    raise MirParseError('unterminated string in %r' % s[:80])


def _is_char_lit(s, i):
    # s[i] == "'"
    if i + 2 < len(s) and s[i + 1] == '\\':
        return True
    if i + 2 < len(s) and s[i + 2] == "'" and s[i + 1] != "'":
        return True
    return False


def _skip_char(s, i):
    j = i + 1
    if s[j] == '\\':
        j += 2
        while s[j] != "'":
            j += 1
        return j + 1
    return i + 3


def split_top(s, sep=','):
    """split s on top-level sep, honouring brackets, '->' and literals"""
    out = []
    depth = 0
    i = 0
    n = len(s)
    start = 0
    while i < n:
        c = s[i]
        if c == '"':
            i = _skip_quote(s, i)
            continue
        if c == "'" and _is_char_lit(s, i):
            i = _skip_char(s, i)
            continue
        if c == '-' and i + 1 < n and s[i + 1] == '>':
            i += 2
            continue
        if c == '=' and i + 1 < n and s[i + 1] == '>':
            i += 2
            continue
        if c in OPEN:
            depth += 1
        elif c in CLOSE:
            depth -= 1
        elif c == sep and depth == 0:
            out.append(s[start:i].strip())
            start = i + 1
        i += 1
    last = s[start:].strip()
    if last or out:
        out.append(last)
    return out


def match_close(s, i):
    """s[i] is an opening bracket; return index of its matching close"""
    depth = 0
    n = len(s)
    while i < n:
        c = s[i]
        if c == '"':
            i = _skip_quote(s, i)
            continue
        if c == "'" and _is_char_lit(s, i):
            i = _skip_char(s, i)
            continue
        if c == '-' and i + 1 < n and s[i + 1] == '>':
            i += 2
            continue
        if c == '=' and i + 1 < n and s[i + 1] == '>':
            i += 2
            continue
        if c in OPEN:
            depth += 1
        elif c in CLOSE:
            depth -= 1
            if depth == 0:
                return i
        i += 1
    raise MirParseError('unbalanced: %r' % s[:120])


def find_top(s, sub, start=0):
    """index of first top-level occurrence of sub in s (or -1)"""
    depth = 0
    i = start
    n = len(s)
    L = len(sub)
    while i < n:
        c = s[i]
        if depth == 0 and s.startswith(sub, i):
            return i
        if c == '"':
            i = _skip_quote(s, i)
            continue
        if c == "'" and _is_char_lit(s, i):
            i = _skip_char(s, i)
            continue
        if c == '-' and i + 1 < n and s[i + 1] == '>':
            i += 2
            continue
        if c in OPEN:
            depth += 1
        elif c in CLOSE:
            depth -= 1
        i += 1
    return -1


# ------------------------------------------------------------------------------------------------
# AST (tuples for speed)
# place: ('local', n) | ('deref', p) | ('field', p, idx) | ('downcast', p, variant)
#        | ('index', p, local_n) | ('cidx', p, off, from_end) | ('subslice', p, a, b, from_end)
# operand: ('copy', place) | ('move', place) | ('const', kind, value, text)
# rvalue: ('use', op) | ('ref', mut, place) | ('rawptr', mut, place) | ('bin', opname, a, b)
#        | ('un', opname, a) | ('discr', place) | ('len', place) | ('cast', op, ty, kind)
#        | ('tuple', [ops]) | ('array', [ops]) | ('repeat', op, n)
#        | ('adt', path, variant_or_None, [ops], [fieldnames] or None) | ('closure', span, [ops])
#        | ('ptrmeta', op) | ('copyderef', place) | ('tlref', name) | ('boxinit', op, ty)

_re_local = re.compile(r'_(\d+)')


def parse_place(s, i=0):
    """returns (place, next_index)"""
    n = len(s)
    if s[i] == '(':
        if s[i + 1] == '*':
            inner, j = parse_place(s, i + 2)
            if s[j] != ')':
                raise MirParseError('deref place: %r' % s[i:i + 60])
            p = ('deref', inner)
            j += 1
        else:
            inner, j = parse_place(s, i + 1)
            if s[j] == '.':
                m = re.compile(r'\.(\d+): ').match(s, j)
                if not m:
                    raise MirParseError('field place: %r' % s[i:i + 80])
                idx = int(m.group(1))
                # skip type to matching ')' of s[i]
                close = match_close(s, i)
                p = ('field', inner, idx)
                j = close + 1
            elif s.startswith(' as ', j):
                close = match_close(s, i)
                variant = s[j + 4:close]
                if variant.startswith('subtype ') or variant.startswith('unwrap_unsafe_binder'):
                    p = inner
                else:
                    p = ('downcast', inner, variant)
                j = close + 1
            else:
                raise MirParseError('place: %r' % s[i:i + 80])
    elif s[i] == '_':
        m = _re_local.match(s, i)
        p = ('local', int(m.group(1)))
        j = m.end()
    else:
        raise MirParseError('place start: %r' % s[i:i + 60])
    while j < n and s[j] == '[':
        close = match_close(s, j)
        inside = s[j + 1:close]
        m = re.fullmatch(r'_(\d+)', inside)
        if m:
            p = ('index', p, int(m.group(1)))
        else:
            m = re.fullmatch(r'(-?)(\d+) of (\d+)', inside)
            if m:
                p = ('cidx', p, int(m.group(2)), m.group(1) == '-')
            else:
                m = re.fullmatch(r'(\d+):(-?)(\d*)', inside)
                if m:
                    p = ('subslice', p, int(m.group(1)), int(m.group(3) or 0), m.group(2) == '-')
                else:
                    m = re.fullmatch(r'(\d+)\.\.(\d+)', inside)
                    if m:
                        p = ('subslice', p, int(m.group(1)), int(m.group(2)), False)
                    else:
                        raise MirParseError('index place: %r' % inside)
        j = close + 1
    return p, j


_re_int = re.compile(r'(-?\d+)_(u8|u16|u32|u64|u128|usize|i8|i16|i32|i64|i128|isize)$')
_re_float = re.compile(r'(-?[\d.eE+-]+)(f32|f64)$')


def unescape(body):
    out = []
    i = 0
    n = len(body)
    while i < n:
        c = body[i]
        if c == '\\':
            d = body[i + 1]
            if d == 'n':
                out.append('\n'); i += 2
            elif d == 't':
                out.append('\t'); i += 2
            elif d == 'r':
                out.append('\r'); i += 2
            elif d == '0':
                out.append('\0'); i += 2
            elif d == '\\':
                out.append('\\'); i += 2
            elif d == '"':
                out.append('"'); i += 2
            elif d == "'":
                out.append("'"); i += 2
            elif d == 'u':
                j = body.index('}', i)
                out.append(chr(int(body[i + 3:j], 16))); i = j + 1
            elif d == 'x':
                out.append(chr(int(body[i + 2:i + 4], 16))); i += 4
            else:
                raise MirParseError('escape %r' % body[i:i + 4])
        else:
            out.append(c)
            i += 1
    return ''.join(out)


def parse_const(t):
    t = t.strip()
    if t == 'true':
        return ('const', 'bool', True, t)
    if t == 'false':
        return ('const', 'bool', False, t)
    if t == '()':
        return ('const', 'unit', None, t)
    m = _re_int.match(t)
    if m:
        return ('const', m.group(2), int(m.group(1)), t)
    if t.startswith('"'):
        e = _skip_quote(t, 0)
        return ('const', 'str', unescape(t[1:e - 1]), t)
    if t.startswith('b"'):
        e = _skip_quote(t, 1)
        return ('const', 'bytes', unescape(t[2:e - 1]), t)
    if t.startswith("'"):
        return ('const', 'char', unescape(t[1:-1]), t)
    m = _re_float.match(t)
    if m:
        return ('const', m.group(2), float(m.group(1)), t)
    return ('const', 'path', t, t)


def parse_operand(t):
    t = t.strip()
    if t.startswith('no_retag '):
        t = t[9:]
    if t.startswith('copy '):
        p, j = parse_place(t, 5)
        if j != len(t):
            raise MirParseError('operand trailing: %r' % t)
        return ('copy', p)
    if t.startswith('move '):
        p, j = parse_place(t, 5)
        if j != len(t):
            raise MirParseError('operand trailing: %r' % t)
        return ('move', p)
    if t.startswith('const '):
        return parse_const(t[6:])
    # bare fn item / const path
    return ('const', 'path', t, t)


BINOPS = {'Add', 'Sub', 'Mul', 'Div', 'Rem', 'BitXor', 'BitAnd', 'BitOr', 'Shl', 'Shr', 'Eq', 'Lt', 'Le',
          'Ne', 'Ge', 'Gt', 'Cmp', 'Offset', 'AddWithOverflow', 'SubWithOverflow', 'MulWithOverflow',
          'AddUnchecked', 'SubUnchecked', 'MulUnchecked', 'ShlUnchecked', 'ShrUnchecked'}
UNOPS = {'Not', 'Neg', 'PtrMetadata'}


def parse_rvalue(t):
    t = t.strip()
    if t.startswith('&raw const '):
        return ('rawptr', False, parse_place(t, 11)[0])
    if t.startswith('&raw mut '):
        return ('rawptr', True, parse_place(t, 9)[0])
    if t.startswith('&mut '):
        return ('ref', True, parse_place(t, 5)[0])
    if t.startswith('&fake shallow '):
        return ('ref', False, parse_place(t, 14)[0])
    if t.startswith('&') and not t.startswith('&&'):
        return ('ref', False, parse_place(t, 1)[0])
    if 'ReifyFnPointer' in t and t.endswith(')') and not t.startswith(('copy ', 'move ', 'const ', '&', '(')):
        # `path::to::function as fn(..) -> .. (PointerCoercion(ReifyFnPointer(Safe), Implicit))`: a function item (or an enum
        # variant / tuple-struct constructor) turned into a function pointer: the value is the function item
        k = find_top(t, ' as ')
        if k > 0:
            return ('use', parse_operand('const ' + t[:k].strip()))
    if t.startswith(('copy ', 'move ', 'const ', 'no_retag ')):
        k = find_top(t, ' as ')
        if k >= 0 and t.endswith(')'):
            # cast:  <operand> as <ty> (<Kind>)
            op = parse_operand(t[:k])
            rest = t[k + 4:]
            kp = rest.rfind(' (')
            # kind may contain parens: PointerCoercion(Unsize, Implicit)
            # find the last top-level ' (' occurrence
            depth = 0
            pos = -1
            i = 0
            while i < len(rest):
                c = rest[i]
                if c == '-' and rest[i + 1:i + 2] == '>':
                    i += 2
                    continue
                if c in OPEN:
                    if c == '(' and depth == 0 and i > 0 and rest[i - 1] == ' ':
                        pos = i
                    depth += 1
                elif c in CLOSE:
                    depth -= 1
                i += 1
            if pos < 0:
                raise MirParseError('cast: %r' % t)
            return ('cast', op, rest[:pos - 1], rest[pos + 1:-1])
        return ('use', parse_operand(t))
    if t.startswith('('):
        close = match_close(t, 0)
        if close == len(t) - 1:
            inner = t[1:-1].strip()
            if inner == '':
                return ('tuple', [])
            parts = split_top(inner)
            if parts and parts[-1] == '':
                parts = parts[:-1]
            return ('tuple', [parse_operand(x) for x in parts])
    if t.startswith('['):
        close = match_close(t, 0)
        if close == len(t) - 1:
            inner = t[1:-1]
            k = find_top(inner, ';')
            if k >= 0:
                return ('repeat', parse_operand(inner[:k]), inner[k + 1:].strip())
            parts = split_top(inner) if inner.strip() else []
            return ('array', [parse_operand(x) for x in parts])
    m = re.match(r'(\w+)\(', t)
    if m and t.endswith(')'):
        name = m.group(1)
        inner = t[m.end():-1]
        if name in BINOPS:
            a, b = split_top(inner)
            return ('bin', name, parse_operand(a), parse_operand(b))
        if name in UNOPS:
            return ('un', name, parse_operand(inner))
        if name == 'discriminant':
            return ('discr', parse_place(inner)[0])
        if name == 'Len':
            return ('len', parse_place(inner)[0])
        if name == 'CopyForDeref' or name == 'deref_copy':
            return ('use', ('copy', parse_place(inner)[0]))
        if name == 'ShallowInitBox':
            a, b = split_top(inner)
            return ('boxinit', parse_operand(a), b)
        if name == 'SizeOf' or name == 'AlignOf' or name == 'UbChecks' or name == 'ContractChecks':
            return ('nullop', name, inner)
    if t.startswith('deref_copy '):
        return ('use', ('copy', parse_place(t, 11)[0]))
    if t.startswith('{closure@') or t.startswith('{coroutine'):
        close = match_close(t, 0)
        span = t[1:close]
        rest = t[close + 1:].strip()
        ops = []
        if rest.startswith('{'):
            inner = rest[1:-1].strip()
            for part in split_top(inner):
                if not part:
                    continue
                k = part.index(': ')
                ops.append(parse_operand(part[k + 2:]))
        return ('closure', span, ops)
    if t.startswith('&'):
        raise MirParseError('rvalue: %r' % t)
    # ADT aggregate.  forms:  Path { f: op, .. } | Path(ops) | Path
    k = find_top(t, ' { ')
    if k >= 0 and t.endswith('}'):
        path = t[:k]
        inner = t[k + 3:-1].strip()
        ops = []
        names = []
        for part in split_top(inner):
            if not part:
                continue
            kk = part.index(': ')
            names.append(part[:kk])
            ops.append(parse_operand(part[kk + 2:]))
        return ('adt', path, ops, names)
    k = find_top(t, '(')
    if k > 0 and t.endswith(')') and match_close(t, k) == len(t) - 1:
        path = t[:k]
        inner = t[k + 1:-1].strip()
        parts = split_top(inner) if inner else []
        return ('adt', path, [parse_operand(x) for x in parts], None)
    if re.fullmatch(r'[\w:<>\',\s&\[\]()_]+', t):
        return ('adt', t, [], None)
    raise MirParseError('rvalue: %r' % t)


def parse_targets(t):
    """'[return: bb1, unwind: bb20]' or 'unwind continue' etc -> dict"""
    t = t.strip()
    d = {}
    if t.startswith('['):
        close = match_close(t, 0)
        for part in split_top(t[1:close]):
            k = part.find(':')
            if k < 0:
                continue  # 'unwind continue' / 'unwind terminate(cleanup)'
            key = part[:k].strip()
            val = part[k + 1:].strip()
            d[key] = val
    else:
        d['raw'] = t
    return d


def _bb(x):
    if x.startswith('bb'):
        return int(x[2:])
    return None


def parse_terminator(t):
    t = t.strip()
    if t.endswith(';'):
        t = t[:-1]
    if t == 'return':
        return ('return',)
    if t == 'unreachable':
        return ('unreachable',)
    if t == 'resume' or t.startswith('resume'):
        return ('resume',)
    if t.startswith('terminate') or t.startswith('abort'):
        return ('abort',)
    if t.startswith('goto -> '):
        return ('goto', _bb(t[8:]))
    if t.startswith('switchInt('):
        close = match_close(t, 9)
        op = parse_operand(t[10:close])
        rest = t[close + 1:].strip()
        assert rest.startswith('-> ')
        rest = rest[3:].strip()
        cases = []
        otherwise = None
        for part in split_top(rest[1:-1]):
            k = part.index(':')
            key = part[:k].strip()
            tgt = _bb(part[k + 1:].strip())
            if key == 'otherwise':
                otherwise = tgt
            else:
                cases.append((int(key), tgt))
        return ('switch', op, cases, otherwise)
    if t.startswith('drop('):
        close = match_close(t, 4)
        p = parse_place(t, 5)[0]
        tg = parse_targets(t[close + 1:].strip()[3:])
        return ('drop', p, _bb(tg.get('return', '')))
    if t.startswith('assert('):
        close = match_close(t, 6)
        inner = split_top(t[7:close])
        c = inner[0]
        expected = True
        if c.startswith('!'):
            expected = False
            c = c[1:]
        cond = parse_operand(c)
        msg = inner[1] if len(inner) > 1 else ''
        tg = parse_targets(t[close + 1:].strip()[3:])
        return ('assert', cond, expected, msg, _bb(tg.get('success', '')))
    if t.startswith('falseEdge') or t.startswith('falseUnwind'):
        tg = parse_targets(t[t.index('->') + 2:])
        return ('goto', _bb(tg.get('real', tg.get('raw', ''))))
    # call:   <place> = <callee>(<args>) -> [return: bbN, unwind: ...]   |  ... -> unwind continue
    k = find_top(t, ' = ')
    if k < 0:
        raise MirParseError('terminator: %r' % t[:200])
    dest = parse_place(t[:k])[0]
    rhs = t[k + 3:]
    # callee up to first top-level '('
    if rhs.startswith(('move ', 'copy ')):
        # fn pointer call:  move _5(args)
        p, j = parse_place(rhs, 5)
        callee = ('op', (rhs[:4], p))
        a = j
    else:
        a = find_top(rhs, '(')
        if a < 0:
            raise MirParseError('call: %r' % t[:200])
        callee = ('path', rhs[:a])
    close = match_close(rhs, a)
    inner = rhs[a + 1:close].strip()
    args = [parse_operand(x) for x in split_top(inner)] if inner else []
    rest = rhs[close + 1:].strip()
    ret = None
    if rest.startswith('-> '):
        tg = parse_targets(rest[3:])
        if 'return' in tg:
            ret = _bb(tg['return'])
    return ('call', dest, callee, args, ret)


def parse_statement(t):
    t = t.strip()
    if t.endswith(';'):
        t = t[:-1]
    if t.startswith(('StorageLive', 'StorageDead', 'nop', 'PlaceMention', 'FakeRead', 'Retag',
                     'AscribeUserType', 'Coverage', 'ConstEvalCounter', 'Deinit', 'BackwardIncompatibleDropHint')):
        return None
    if t.startswith('assume('):
        return ('assume', parse_operand(t[7:-1]))
    if t.startswith('discriminant('):
        close = match_close(t, 12)
        p = parse_place(t, 13)[0]
        val = t[close + 1:].strip()
        assert val.startswith('= ')
        return ('setdiscr', p, int(val[2:]))
    k = find_top(t, ' = ')
    if k < 0:
        raise MirParseError('statement: %r' % t[:200])
    return ('assign', parse_place(t[:k])[0], parse_rvalue(t[k + 3:]))


# ------------------------------------------------------------------------------------------------

class Func:
    __slots__ = ('name', 'header', 'args', 'ret', 'locals', 'blocks', 'file', 'simple', 'argtypes',
                 'debug', 'nlocals', 'crate', '_zst_closures')

    def __repr__(self):
        return '<Func %s>' % self.name


_re_hdr = re.compile(r'^(fn|const|static|static mut) ')
_re_let = re.compile(r'^\s*let (mut )?_(\d+): (.*);$')
_re_dbg = re.compile(r'^\s*debug (\S+) => (.*);$')
_re_bb = re.compile(r'^\s*bb(\d+)( \(cleanup\))?: \{$')


def parse_header(line):
    """'fn NAME(args) -> RET {'  ->  (name, [(n, ty)], ret)"""
    assert line.startswith('fn ')
    body = line[3:]
    a = find_top(body, '(')
    name = body[:a]
    close = match_close(body, a)
    inner = body[a + 1:close]
    args = []
    for part in split_top(inner):
        if not part:
            continue
        m = re.match(r'_(\d+): (.*)$', part, re.S)
        if not m:
            raise MirParseError('header arg: %r' % part)
        args.append((int(m.group(1)), m.group(2)))
    rest = body[close + 1:].strip()
    ret = '()'
    if rest.startswith('-> '):
        ret = rest[3:].rstrip('{').strip()
    return name, args, ret


def parse_function(lines, crate=None):
    """lines: list of text lines from 'fn ...{' to the closing '}'"""
    f = Func()
    f.crate = crate
    f.header = lines[0]
    if lines[0].startswith('fn '):
        f.name, f.args, f.ret = parse_header(lines[0].rstrip())
    else:
        # const / static / promoted:  'const NAME: TY = {'
        m = re.match(r'^(?:const|static mut|static) (.*?): (.*) = \{$', lines[0].rstrip())
        if not m:
            raise MirParseError('const header: %r' % lines[0])
        f.name, f.args, f.ret = m.group(1), [], m.group(2)
    f.argtypes = [t for _, t in f.args]
    f.locals = {}
    f.debug = {}
    f.blocks = {}
    cur = None
    stmts = None
    pending = None
    for raw in lines[1:]:
        line = raw.rstrip()
        if cur is None:
            m = _re_let.match(line)
            if m:
                f.locals[int(m.group(2))] = m.group(3)
                continue
            m = _re_dbg.match(line)
            if m:
                f.debug.setdefault(m.group(1), m.group(2))
                continue
            m = _re_bb.match(line)
            if m:
                cur = int(m.group(1))
                stmts = []
                continue
            continue
        s = line.strip()
        if s == '}':
            # end of block
            if not stmts:
                raise MirParseError('empty block bb%d in %s' % (cur, f.name))
            f.blocks[cur] = stmts
            cur = None
            continue
        if not s:
            continue
        # statements may span lines only for string constants with embedded newlines: rare
        if pending is not None:
            s = pending + '\n' + line
            pending = None
        if not s.endswith(';'):
            pending = s
            continue
        stmts.append(s)
    for n, t in f.args:
        f.locals[n] = t
    f.locals[0] = f.ret
    f.nlocals = max(f.locals) + 1 if f.locals else 1
    return f


class LazyBlocks:
    """parses statement text on first use"""

    def __init__(self, func):
        self.func = func
        self.cache = {}

    def get(self, bb):
        r = self.cache.get(bb)
        if r is None:
            raw = self.func.blocks[bb]
            stmts = []
            for s in raw[:-1]:
                st = parse_statement(s)
                if st is not None:
                    stmts.append(st)
            term = parse_terminator(raw[-1])
            r = (stmts, term)
            self.cache[bb] = r
        return r


class MirFile:
    """index over a MIR dump: function header line -> byte range; parse on demand"""

    def __init__(self, path, crate):
        self.path = path
        self.crate = crate
        self.items = []  # (header_line, start_offset, end_offset)
        self._load_index()
        self._fh = open(path, 'rb')
        self._cache = {}

    def _load_index(self):
        st = os.stat(self.path)
        key = '%s:%d:%d' % (self.path, st.st_size, st.st_mtime_ns)
        ipath = self.path + '.idx'
        if os.path.exists(ipath):
            try:
                with open(ipath, 'rb') as fh:
                    k, items = pickle.load(fh)
                if k == key:
                    self.items = items
                    return
            except Exception:
                pass
        items = []
        off = 0
        start = None
        hdr = None
        with open(self.path, 'rb') as fh:
            for bl in fh:
                if start is None:
                    if bl.startswith((b'fn ', b'const ', b'static ')) and bl.rstrip().endswith(b'{'):
                        start = off
                        hdr = bl.decode('utf-8').rstrip('\n')
                    elif bl.startswith((b'const ', b'static ')):
                        # one-line const:  const X: T = const V;
                        items.append((bl.decode('utf-8').rstrip('\n'), off, off + len(bl)))
                elif bl.startswith(b'}'):
                    items.append((hdr, start, off + len(bl)))
                    start = None
                off += len(bl)
        self.items = items
        try:
            with open(ipath, 'wb') as fh:
                pickle.dump((key, items), fh)
        except Exception:
            pass

    def load(self, idx):
        f = self._cache.get(idx)
        if f is None:
            hdr, a, b = self.items[idx]
            text = os.pread(self._fh.fileno(), b - a, a).decode('utf-8')
            f = parse_function(text.split('\n'), self.crate)
            f.file = self
            self._cache[idx] = f
        return f
