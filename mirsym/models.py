"""Models of std / nom items used by the sv-parser crates (closed list, see DESIGN.md section 7),
plus dispatch of calls to functions whose MIR is in the dumps."""
import re
import z3
from values import *
from interp import (Inconclusive, RustPanic, PathInfeasible, rt_type, norm_type, type_compat,
                    strip_generics, USIZE_MAX)
from mir import match_close

TABLE = {}


def model(*keys):
    def deco(fn):
        for k in keys:
            TABLE[k] = fn
        return fn
    return deco


def some(v):
    return Enum('Option', 'Some', 1, [v])


def none():
    return Enum('Option', 'None', 0, [])


def ok(v):
    return Enum('Result', 'Ok', 0, [v])


def err(v):
    return Enum('Result', 'Err', 1, [v])


def ordering(i):
    return Enum('Ordering', ['Less', 'Equal', 'Greater'][i + 1], i, [])


def deref(v):
    while type(v) is Ref:
        v = v.get()
    return v


def sv(v):
    """python str of a &str / &String / String value"""
    v = deref(v)
    if type(v) is str:
        return v
    if type(v) is StringV:
        if v.guard is not None:
            raise Inconclusive('guarded (symbolically present) key used outside clone/insert')
        if v.s is None:
            raise Inconclusive('abstract string content needed')
        return v.s
    if type(v) is PathV:
        return v.s
    if type(v) is Choice:
        raise Inconclusive('string choice not concretized')
    raise Inconclusive('expected string, got %r' % (v,))


def slen(v):
    """length (int or z3) of a str-like"""
    v = deref(v)
    if type(v) is str:
        return len(v.encode('utf-8'))
    if isinstance(v, AbsStr):
        return v.n
    if type(v) is StringV:
        if v.s is None:
            return v.n
        return len(v.s.encode('utf-8'))
    raise Inconclusive('len of %r' % (v,))


def bslice(s, a, b=None):
    """byte-offset slice of a python str with char-boundary check (panics like Rust)"""
    bs = s.encode('utf-8')
    if b is None:
        b = len(bs)
    if a > b or b > len(bs):
        raise RustPanic('byte index out of range / slice index starts after end (%d..%d of %d)' % (a, b, len(bs)))
    try:
        return bs[a:b].decode('utf-8') if (_is_boundary(bs, a) and _is_boundary(bs, b)) else _bad_boundary(a, b)
    except UnicodeDecodeError:
        raise RustPanic('byte index is not a char boundary')


def _is_boundary(bs, i):
    if i == 0 or i == len(bs):
        return True
    return (bs[i] & 0xC0) != 0x80


def _bad_boundary(a, b):
    raise RustPanic('byte index %d..%d is not a char boundary' % (a, b))


# ------------------------------------------------------------------------------------------------
# iterators

class PyIter:
    def __init__(self, items, pos=0):
        self.items = items
        self.pos = pos

    def next(self):
        if self.pos < len(self.items):
            v = self.items[self.pos]
            self.pos += 1
            return v
        return None

    def clone(self):
        return PyIter(self.items, self.pos)


class EnumerateIter:
    def __init__(self, inner):
        self.inner = inner
        self.i = 0

    def next(self):
        v = self.inner.next()
        if v is None:
            return None
        r = Tup([self.i, v])
        self.i += 1
        return r


class PeekIter:
    def __init__(self, inner):
        self.inner = inner
        self.peeked = []   # [] or [value-or-None]

    def next(self):
        if self.peeked:
            v = self.peeked.pop()
            return v
        return self.inner.next()

    def peek(self):
        if not self.peeked:
            self.peeked.append(self.inner.next())
        return self.peeked[0]


def opt_of(v):
    return none() if v is None else some(v)


# ------------------------------------------------------------------------------------------------
# HashMap<String, V> with symbolic presence

class HEntry:
    __slots__ = ('key', 'present', 'val')

    def __init__(self, key, present, val):
        self.key = key          # StringV
        self.present = present  # bool | z3 Bool
        self.val = val          # one-element list (location)


class HashMapV:
    def __init__(self):
        self.entries = {}       # python str -> HEntry (insertion ordered)

    def clone(self):
        h = HashMapV()
        for k, e in self.entries.items():
            h.entries[k] = HEntry(StringV(e.key.s), e.present, [deep_clone(e.val[0])])
        return h


# ------------------------------------------------------------------------------------------------
# BTreeMap: std's algorithm (B=6), linear search in nodes with the real comparator

class BNode:
    __slots__ = ('keys', 'vals', 'edges')

    def __init__(self):
        self.keys = []
        self.vals = []
        self.edges = None   # None for leaf


class BTreeV:
    CAP = 11

    def __init__(self):
        self.root = None
        self.length = 0

    def cmp(self, it, a_loc, b_loc):
        """real Ord::cmp from MIR on two key locations -> -1/0/1 (integer keys: the built-in order)"""
        x, y = a_loc[0][a_loc[1]], b_loc[0][b_loc[1]]
        if (isinstance(x, int) or is_sym(x)) and (isinstance(y, int) or is_sym(y)):
            if is_sym(x) or is_sym(y):
                return it.choose([x < y, x == y, x > y], 'btree_int_cmp') - 1
            return -1 if x < y else (0 if x == y else 1)
        a = Ref(a_loc[0], a_loc[1])
        b = Ref(b_loc[0], b_loc[1])
        r = it.models.call_trait_method(it, 'cmp', [a, b])
        r = it.concretize(r)
        return r.idx

    def search_node(self, it, node, kloc):
        for i in range(len(node.keys)):
            c = self.cmp(it, kloc, (node.keys, i))
            if c > 0:
                continue
            if c == 0:
                return ('found', i)
            return ('down', i)
        return ('down', len(node.keys))

    def get(self, it, kloc):
        node = self.root
        while node is not None:
            r, i = self.search_node(it, node, kloc)
            if r == 'found':
                return (node.vals, i)
            if node.edges is None:
                return None
            node = node.edges[i]
        return None

    @staticmethod
    def splitpoint(edge_idx):
        if edge_idx < 5:
            return 4, 'L', edge_idx
        if edge_idx == 5:
            return 5, 'L', edge_idx
        if edge_idx == 6:
            return 5, 'R', 0
        return 6, 'R', edge_idx - 7

    def insert(self, it, key, val):
        """returns old value or None"""
        if self.root is None:
            n = BNode()
            n.keys.append(key)
            n.vals.append(val)
            self.root = n
            self.length = 1
            return None
        kcell = [key]
        path = []
        node = self.root
        while True:
            r, i = self.search_node(it, node, (kcell, 0))
            if r == 'found':
                old = node.vals[i]
                node.vals[i] = val      # std: replaces the value, keeps the old key
                return old
            if node.edges is None:
                break
            path.append((node, i))
            node = node.edges[i]
        self.length += 1
        # insert into leaf at i
        ins_k, ins_v, ins_edge = key, val, None
        idx = i
        while True:
            if len(node.keys) < self.CAP:
                node.keys.insert(idx, ins_k)
                node.vals.insert(idx, ins_v)
                if ins_edge is not None:
                    node.edges.insert(idx + 1, ins_edge)
                return None
            mid, side, nidx = self.splitpoint(idx)
            right = BNode()
            right.keys = node.keys[mid + 1:]
            right.vals = node.vals[mid + 1:]
            upk, upv = node.keys[mid], node.vals[mid]
            if node.edges is not None:
                right.edges = node.edges[mid + 1:]
                node.edges = node.edges[:mid + 1]
            node.keys = node.keys[:mid]
            node.vals = node.vals[:mid]
            tgt = node if side == 'L' else right
            tgt.keys.insert(nidx, ins_k)
            tgt.vals.insert(nidx, ins_v)
            if ins_edge is not None:
                tgt.edges.insert(nidx + 1, ins_edge)
            if path:
                parent, pidx = path.pop()
                ins_k, ins_v, ins_edge = upk, upv, right
                node = parent
                idx = pidx
                continue
            newroot = BNode()
            newroot.keys = [upk]
            newroot.vals = [upv]
            newroot.edges = [node, right]
            self.root = newroot
            return None

    # ---- removal: alloc::collections::btree::remove (remove_leaf_kv / remove_internal_kv) and the balancing steps of
    # btree::node / btree::fix (choose_parent_kv prefers the left sibling; merge when left+1+right <= CAPACITY, else steal)
    MIN_LEN = 5

    def _path_to(self, it, kloc):
        """[(node, idx)] from the root to the node holding the key (last idx = kv index), or None"""
        path = []
        node = self.root
        while node is not None:
            r, i = self.search_node(it, node, kloc)
            if r == 'found':
                path.append((node, i))
                return path
            if node.edges is None:
                return None
            path.append((node, i))
            node = node.edges[i]
        return None

    @staticmethod
    def _merge(parent, kv):
        left, right = parent.edges[kv], parent.edges[kv + 1]
        left.keys += [parent.keys[kv]] + right.keys
        left.vals += [parent.vals[kv]] + right.vals
        if left.edges is not None:
            left.edges += right.edges
        del parent.keys[kv], parent.vals[kv], parent.edges[kv + 1]

    @staticmethod
    def _steal_left(parent, kv, count):
        left, right = parent.edges[kv], parent.edges[kv + 1]
        nl = len(left.keys) - count
        right.keys = left.keys[nl + 1:] + [parent.keys[kv]] + right.keys
        right.vals = left.vals[nl + 1:] + [parent.vals[kv]] + right.vals
        parent.keys[kv], parent.vals[kv] = left.keys[nl], left.vals[nl]
        left.keys, left.vals = left.keys[:nl], left.vals[:nl]
        if left.edges is not None:
            right.edges = left.edges[nl + 1:] + right.edges
            left.edges = left.edges[:nl + 1]

    @staticmethod
    def _steal_right(parent, kv, count):
        left, right = parent.edges[kv], parent.edges[kv + 1]
        left.keys += [parent.keys[kv]] + right.keys[:count - 1]
        left.vals += [parent.vals[kv]] + right.vals[:count - 1]
        parent.keys[kv], parent.vals[kv] = right.keys[count - 1], right.vals[count - 1]
        right.keys, right.vals = right.keys[count:], right.vals[count:]
        if left.edges is not None:
            left.edges += right.edges[:count]
            right.edges = right.edges[count:]

    def _remove_leaf_kv(self, path):
        """path: [(node, edge idx)...,(leaf, kv idx)]"""
        leaf, i = path[-1]
        k, v = leaf.keys.pop(i), leaf.vals.pop(i)
        self.length -= 1
        anc = path[:-1]
        if len(leaf.keys) < self.MIN_LEN and anc:
            parent, pidx = anc[-1]
            if pidx > 0:
                if len(parent.edges[pidx - 1].keys) + 1 + len(leaf.keys) <= self.CAP:
                    self._merge(parent, pidx - 1)
                else:
                    self._steal_left(parent, pidx - 1, 1)
            else:
                if len(leaf.keys) + 1 + len(parent.edges[pidx + 1].keys) <= self.CAP:
                    self._merge(parent, pidx)
                else:
                    self._steal_right(parent, pidx, 1)
            # fix_node_and_affected_ancestors, starting at the leaf's parent
            level = len(anc) - 1
            while level >= 0:
                node = anc[level][0]
                n = len(node.keys)
                if n >= self.MIN_LEN:
                    break
                if level == 0:
                    if n == 0:
                        self.root = node.edges[0]      # pop_internal_level
                    break
                parent, pidx = anc[level - 1]
                if pidx > 0:
                    if len(parent.edges[pidx - 1].keys) + 1 + n <= self.CAP:
                        self._merge(parent, pidx - 1)
                        level -= 1
                        continue
                    self._steal_left(parent, pidx - 1, self.MIN_LEN - n)
                else:
                    if n + 1 + len(parent.edges[pidx + 1].keys) <= self.CAP:
                        self._merge(parent, pidx)
                        level -= 1
                        continue
                    self._steal_right(parent, pidx, self.MIN_LEN - n)
                break
        elif not anc and not leaf.keys:
            self.root = None
        return k, v

    def remove_path(self, path):
        node, i = path[-1]
        if node.edges is None:
            return self._remove_leaf_kv(path)
        # internal: remove the in-order predecessor from its leaf, then put it in place of the kv to remove
        order = self.locs()
        at = next(j for j, (ks, ii, vs) in enumerate(order) if ks is node.keys and ii == i)
        p2 = list(path[:-1]) + [(node, i)]
        cur = node.edges[i]
        while cur.edges is not None:
            p2.append((cur, len(cur.keys)))
            cur = cur.edges[len(cur.keys)]
        p2.append((cur, len(cur.keys) - 1))
        pk, pv = self._remove_leaf_kv(p2)
        ks, ii, vs = self.locs()[at - 1]      # the original kv is the in-order successor of the hole
        old = (ks[ii], vs[ii])
        ks[ii], vs[ii] = pk, pv
        return old

    def pop_end(self, last):
        if self.root is None:
            return None
        path = []
        node = self.root
        while node.edges is not None:
            j = len(node.keys) if last else 0
            path.append((node, j))
            node = node.edges[j]
        path.append((node, len(node.keys) - 1 if last else 0))
        return self._remove_leaf_kv(path)

    def locs(self):
        """in-order (keys list, index, vals list) locations"""
        out = []

        def walk(n):
            if n is None:
                return
            if n.edges is None:
                for i in range(len(n.keys)):
                    out.append((n.keys, i, n.vals))
            else:
                for i in range(len(n.keys)):
                    walk(n.edges[i])
                    out.append((n.keys, i, n.vals))
                walk(n.edges[len(n.keys)])
        walk(self.root)
        return out

    def items(self):
        out = []

        def walk(n):
            if n is None:
                return
            if n.edges is None:
                for k, v in zip(n.keys, n.vals):
                    out.append((k, v))
            else:
                for i in range(len(n.keys)):
                    walk(n.edges[i])
                    out.append((n.keys[i], n.vals[i]))
                walk(n.edges[len(n.keys)])
        walk(self.root)
        return out


# ------------------------------------------------------------------------------------------------

class Models:
    def __init__(self):
        self.overrides = []      # (regex, handler) harness stubs, first match wins
        self.pre_hooks = []      # callables (it, ci, args, dest_ty) -> value | NotImplemented
        self.called = {}         # model key -> count (evidence: which models/stubs were used)
        self.mir_called = {}

    def override(self, pattern, fn):
        self.overrides.append((re.compile(pattern), fn))

    # -- MIR dispatch helpers ------------------------------------------------------------------
    def call_mir(self, it, simple, args, ret=None, self_base=None, trait=None, what=''):
        rts = [rt_type(a) for a in args]
        cands = it.prog.find_fn(simple, rts, len(args), ret, self_base, trait)
        if len(cands) == 1:
            e = cands[0]
            f = it.prog.func(e)
            self.mir_called[f.name] = self.mir_called.get(f.name, 0) + 1
            return True, it.run_func(f, args)
        if len(cands) > 1:
            # identical duplicates (same header printed twice, e.g. ctor shims)?
            names = {c.header for c in cands}
            if len(names) == 1:
                f = it.prog.func(cands[0])
                return True, it.run_func(f, args)
            raise Inconclusive('ambiguous MIR callee %s %s: %s' % (simple, rts, [c.name for c in cands][:4]))
        return False, None

    def call_trait_method(self, it, name, args):
        okk, r = self.call_mir(it, name, args)
        if not okk:
            raise Inconclusive('no MIR impl of %s for %s' % (name, [rt_type(a) for a in args]))
        return r

    # -- main entry ----------------------------------------------------------------------------
    def dispatch(self, it, ci, args, dest_ty):
        path = ci.path
        for hk in self.pre_hooks:
            r = hk(it, ci, args, dest_ty)
            if r is not NotImplemented:
                return r
        for rx, fn in self.overrides:
            if rx.search(path):
                self.called['override:' + rx.pattern] = self.called.get('override:' + rx.pattern, 0) + 1
                return fn(it, ci, args, dest_ty)
        name = ci.name
        # ---- conversion traits: prefer the repo's impls (MIR), fall back to structural models
        if ci.trait:
            tb = ci.tbase
            if tb == 'Into' and name == 'into':
                okk, r = self.call_mir(it, 'from', args, ret=ci.targ, trait='From')
                if okk:
                    return r
                return self.std_into(it, ci, args)
            if tb == 'From' and name == 'from':
                okk, r = self.call_mir(it, 'from', args, ret=ci.qbase, trait='From')
                if okk:
                    return r
                return self.std_from(it, ci, args)
            if tb == 'TryInto' and name == 'try_into':
                okk, r = self.call_mir(it, 'try_from', args, trait='TryFrom', self_base=ci.targ)
                if okk:
                    return r
                # blanket: T: Into<U>  => TryFrom infallible
                if ci.targ and type_compat(ci.targ, rt_type(args[0])):
                    return ok(args[0])
                raise Inconclusive('try_into: %s' % path)
            if tb == 'TryFrom' and name == 'try_from':
                okk, r = self.call_mir(it, 'try_from', args, trait='TryFrom', self_base=ci.qbase)
                if okk:
                    return r
                raise Inconclusive('try_from: %s' % path)
            if tb == 'IntoIterator' and name == 'into_iter':
                v = args[0]
                if type(v) is Opaque and hasattr(v.data, 'next'):
                    return v
                okk, r = self.call_mir(it, 'into_iter', args, trait='IntoIterator')
                if okk:
                    return r
                return self.std_into_iter(it, v)
            if tb == 'Iterator' and name == 'next':
                tgt = deref(args[0])
                if type(tgt) is Opaque and hasattr(tgt.data, 'next'):
                    self.called['Iterator::next(model)'] = self.called.get('Iterator::next(model)', 0) + 1
                    return opt_of(tgt.data.next())
                okk, r = self.call_mir(it, 'next', args, trait='Iterator')
                if okk:
                    return r
                raise Inconclusive('Iterator::next on %r' % (tgt,))
            if tb == 'Iterator' and name in ITER:
                self.called['Iterator::' + name] = self.called.get('Iterator::' + name, 0) + 1
                return ITER[name](it, ci, args, dest_ty)
            if tb == 'Extend' and name == 'extend':
                key = (ci.qbase or '').lstrip('&') + '::extend'
                h = TABLE.get(key)
                if h:
                    self.called[key] = self.called.get(key, 0) + 1
                    return h(it, ci, args, dest_ty)
            if tb == 'DoubleEndedIterator' and name in ('next_back',):
                tgt = deref(args[0])
                if type(tgt) is Opaque and hasattr(tgt.data, 'next_back'):
                    return opt_of(tgt.data.next_back())
                if type(tgt) is Opaque and isinstance(tgt.data, PyIter):
                    pi = tgt.data
                    if pi.pos < len(pi.items):
                        return some(pi.items.pop())
                    return none()
                raise Inconclusive('next_back on %r' % (tgt,))
            if tb == 'DoubleEndedIterator' and name in ('rfold', 'rfind', 'nth_back', 'rev', 'try_rfold'):
                self.called['DoubleEndedIterator::' + name] = self.called.get('DoubleEndedIterator::' + name, 0) + 1
                items = list(iter_drain(it, args[0]))
                items.reverse()
                if name == 'rev':
                    return Opaque('Rev', PyIter(items))
                if name == 'rfold':
                    acc = args[1]
                    for x in items:
                        acc = it.call_value(args[2], [acc, x])
                    return acc
                if name == 'rfind':
                    for x in items:
                        if truthy(it, it.call_value(args[1], [Ref([x], 0)])):
                            return some(x)
                    return none()
                if name == 'nth_back':
                    n = args[1]
                    return some(items[n]) if (not is_sym(n) and n < len(items)) else none()
                raise Inconclusive('DoubleEndedIterator::%s' % name)
            if tb == 'Read' and name == 'read_to_string':
                h = TABLE.get('BufReader::read_to_string')
                if h:
                    self.called['Read::read_to_string'] = self.called.get('Read::read_to_string', 0) + 1
                    return h(it, ci, args, dest_ty)
            if tb == 'Clone' and name == 'clone':
                self.called['Clone::clone'] = self.called.get('Clone::clone', 0) + 1
                return deep_clone(deref(args[0]))
            if tb == 'PartialEq' and name in ('eq', 'ne'):
                a, b = deref(args[0]), deref(args[1])
                if type(a) is Struct and a.ty == 'Range':
                    okk, r = self.call_mir(it, 'eq', args, trait='PartialEq')
                    if okk:
                        return r if name == 'eq' else self.negate(r)
                self.called['PartialEq::eq(structural)'] = self.called.get('PartialEq::eq(structural)', 0) + 1
                r = self.struct_eq(it, a, b)
                return r if name == 'eq' else (not r)
            if tb in ('Ord', 'PartialOrd') and name in ('cmp', 'partial_cmp'):
                a, b = deref(args[0]), deref(args[1])
                if isinstance(a, int) or is_sym(a) or is_sym(b):
                    return self.int_cmp(it, a, b, name == 'partial_cmp')
                if type(a) in (str, StringV) and type(b) in (str, StringV):
                    # str order = byte-wise lexicographic order of the UTF-8 encodings
                    x, y = sv(a).encode('utf-8'), sv(b).encode('utf-8')
                    r = ordering(-1 if x < y else (0 if x == y else 1))
                    return some(r) if name == 'partial_cmp' else r
                okk, r = self.call_mir(it, name, args)
                if okk:
                    return r
                raise Inconclusive('cmp on %r' % (a,))
            if tb == 'Node' and name == 'next':
                okk, r = self.call_mir(it, 'next', args, trait='Node')
                if okk:
                    return r
            if tb in ('Deref', 'DerefMut', 'AsRef', 'Borrow', 'AsMut') and name in ('deref', 'deref_mut', 'as_ref', 'borrow', 'as_mut'):
                return self.std_deref(it, ci, args)
            if tb == 'Default' and name == 'default':
                h = TABLE.get(ci.qbase + '::default')
                if h:
                    return h(it, ci, args, dest_ty)
                okk, r = self.call_mir(it, 'default', args, self_base=ci.qbase)
                if okk:
                    return r
                raise Inconclusive('Default for %s' % ci.qbase)
            if tb == 'ToString' and name == 'to_string':
                v = deref(args[0])
                if type(v) in (str, StringV):
                    return StringV(sv(v))
                if isinstance(v, int):
                    return StringV(str(v))
                raise Inconclusive('to_string of %r' % (v,))
            if tb in ('FnOnce', 'FnMut', 'Fn') and name in ('call_once', 'call_mut', 'call'):
                fv = args[0]
                tup = args[1]
                tgt = deref(fv)
                if tgt is None:
                    # a capture-less closure is zero-sized: MIR may never assign its local; its identity is in the callee path
                    mclo = re.search(r'\{closure@([^{}]*)\}', ci.qself or '')
                    if mclo:
                        tgt = Closure('closure@' + mclo.group(1), [])
                if type(tgt) is Opaque:
                    h = TABLE.get(tgt.kind + '::call')
                    if h:
                        self.called[tgt.kind + '::call'] = self.called.get(tgt.kind + '::call', 0) + 1
                        return h(it, ci, [tgt] + list(tup.fields), dest_ty)
                return it.call_value(tgt, list(tup.fields))
            if tb == 'Try' and name == 'branch':
                v = it.concretize(args[0])
                if v.ty == 'Result':
                    if v.variant == 'Ok':
                        return Enum('ControlFlow', 'Continue', 0, [v.fields[0]])
                    return Enum('ControlFlow', 'Break', 1, [err(v.fields[0])])
                if v.ty == 'Option':
                    if v.variant == 'Some':
                        return Enum('ControlFlow', 'Continue', 0, [v.fields[0]])
                    return Enum('ControlFlow', 'Break', 1, [none()])
            if tb == 'FromResidual' and name == 'from_residual':
                v = args[0]
                if type(v) is not Enum:
                    # `const Option::<Infallible>::None` (the residual of `?` on an Option is a constant)
                    v = it.concretize(v) if type(v) is Choice else v
                    if type(v) is not Enum:
                        if (ci.qbase or '').lstrip('&').startswith('Option') or 'Option' in (ci.qself or '')[:40]:
                            return none()
                        raise Inconclusive('from_residual of %r' % (v,))
                if v.ty == 'Result':
                    e = v.fields[0]
                    return err(e)
                return none()
            if tb == 'Index' and name == 'index':
                return self.std_index(it, ci, args)
            if tb == 'Display' or tb == 'Debug':
                raise Inconclusive('formatting call %s' % path)
            key = (ci.qbase or '').lstrip('&') + '::' + name
            h = TABLE.get(key)
            if h:
                self.called[key] = self.called.get(key, 0) + 1
                return h(it, ci, args, dest_ty)
            # trait method implemented in the repo?
            okk, r = self.call_mir(it, name, args, trait=tb)
            if okk:
                return r
            raise Inconclusive('unmodelled trait call %s' % path)
        # ---- inherent / free functions
        pb = ci.pbase
        m = re.search(r'<impl ', path)
        if m:
            k = m.start()
            inner = path[k + 6:match_close(path, k)]
            pb = norm_type(inner)
        key = (pb + '::' + name) if pb else name
        h = TABLE.get(key)
        if h:
            self.called[key] = self.called.get(key, 0) + 1
            return h(it, ci, args, dest_ty)
        # enum variant / tuple-struct constructors used as functions
        if pb and pb in it.td.enums and name in it.td.enums[pb]:
            return Enum(pb, name, it.td.variant_index(pb, name), list(args))
        okk, r = self.call_mir(it, name, args, self_base=pb if (pb and pb[0].isupper()) else None)
        if okk:
            return r
        if pb and pb[0].isupper():
            okk, r = self.call_mir(it, name, args)
            if okk:
                return r
        raise Inconclusive('unknown callee %s  args=%s' % (path[:200], [rt_type(a) for a in args]))

    # -- helpers -------------------------------------------------------------------------------
    def negate(self, r):
        if is_sym(r):
            return z3.Not(r)
        return not r

    def int_cmp(self, it, a, b, partial):
        if is_sym(a) or is_sym(b):
            k = it.choose([a < b, a == b, a > b], 'cmp')
            r = ordering(k - 1)
        else:
            r = ordering(-1 if a < b else (0 if a == b else 1))
        return some(r) if partial else r

    def struct_eq(self, it, a, b):
        a, b = deref(a), deref(b)
        ta, tb = type(a), type(b)
        if ta is Choice or tb is Choice:
            raise Inconclusive('eq on Choice')
        if ta is StringV or ta is str or tb is StringV or tb is str:
            return sv(a) == sv(b)
        if ta is not tb:
            if isinstance(a, int) and isinstance(b, int):
                return a == b
            return False
        if ta is Struct:
            if a.ty != b.ty:
                return False
            if a.ty == 'Range':
                okk, r = self.call_mir(it, 'eq', [Ref([a], 0), Ref([b], 0)], trait='PartialEq')
                if okk:
                    return it.decide(r)
            return all(self.struct_eq(it, x, y) for x, y in zip(a.fields, b.fields))
        if ta is Enum:
            if a.ty != b.ty or a.idx != b.idx:
                return False
            return all(self.struct_eq(it, x, y) for x, y in zip(a.fields, b.fields))
        if ta in (Tup, Arr, VecV):
            if len(a.fields) != len(b.fields):
                return False
            return all(self.struct_eq(it, x, y) for x, y in zip(a.fields, b.fields))
        if ta is BoxV:
            return self.struct_eq(it, a.cell[0], b.cell[0])
        if ta is PathV:
            return a.s == b.s
        if is_sym(a) or is_sym(b):
            return it.decide(a == b)
        return a == b

    def std_deref(self, it, ci, args):
        v = args[0]
        t = deref(v)
        if type(t) is StringV:
            if t.s is None:
                return AbsStr(t.n)
            return sv(t)
        if type(t) is str or isinstance(t, AbsStr):
            return t
        if type(t) is PathV:
            return v if type(v) is Ref else t
        if type(t) in (VecV, Arr):
            # &Vec<T> -> &[T]
            r = v
            while type(r) is Ref and type(r.get()) is Ref:
                r = r.get()
            return r
        if type(t) is BoxV:
            return Ref(t.cell, 0)
        if ci.tbase == 'AsRef':
            # <T as AsRef<Path>>::as_ref
            return v if type(v) is Ref else t
        raise Inconclusive('deref/as_ref of %r (%s)' % (t, ci.path))

    def std_into(self, it, ci, args):
        v = args[0]
        tgt = ci.targ
        if tgt == 'String':
            return StringV(sv(v))
        if tgt == 'PathBuf':
            return PathV(sv(v))
        if tgt and type_compat(tgt, rt_type(v)):
            return v
        raise Inconclusive('into: %s' % ci.path)

    def std_from(self, it, ci, args):
        v = args[0]
        q = ci.qbase
        if q == 'String':
            return StringV(sv(v))
        if q == 'PathBuf':
            d = deref(v)
            if type(d) is PathV:
                return PathV(d.s)
            return PathV(sv(v))
        if q and type_compat(q, rt_type(v)):
            return v
        raise Inconclusive('from: %s' % ci.path)

    def std_into_iter(self, it, v):
        t = type(v)
        if t is Choice:
            v = it.concretize(v)
            t = type(v)
        if t is Opaque and hasattr(v.data, 'next'):
            return v          # an iterator is its own IntoIterator
        if t is Enum and v.ty == 'Option':
            return Opaque('OptionIntoIter', PyIter([v.fields[0]] if v.variant == 'Some' else []))
        if t is VecV or t is Arr:
            return Opaque('VecIntoIter', PyIter(list(v.fields)))
        if t is Ref:
            d = v.get()
            if type(d) is Ref:
                d = d.get()
            if type(d) in (VecV, Arr):
                return Opaque('SliceIter', PyIter([Ref(d.fields, i) for i in range(len(d.fields))]))
            if type(d) is Opaque and d.kind == 'HashMap':
                return self.hashmap_iter(it, d.data)
            if type(d) is Enum and d.ty == 'Option':
                return Opaque('OptionIter', PyIter([Ref(d.fields, 0)] if d.variant == 'Some' else []))
        if t is Opaque and v.kind == 'BTreeMap':
            items = [Tup([k, val]) for k, val in v.data.items()]
            return Opaque('BTreeIntoIter', PyIter(items))
        if t is Opaque and v.kind == 'HashMap':
            raise Inconclusive('HashMap by-value iteration')
        if t is Struct and it.prog.find_fn('next', ['&' + v.ty], 1, trait='Iterator'):
            return v    # blanket impl<I: Iterator> IntoIterator for I
        raise Inconclusive('into_iter of %r' % (v,))

    def hashmap_iter(self, it, hm):
        items = []
        for k, e in hm.entries.items():
            if e.present is False:
                continue
            keyv = e.key
            if e.present is not True:
                keyv = StringV(e.key.s)
                keyv.guard = e.present
            items.append(Tup([Ref([keyv], 0), Ref(e.val, 0)]))
        return Opaque('HashMapIter', PyIter(items))

    def std_index(self, it, ci, args):
        base = deref(args[0])
        idx = args[1]
        if type(base) in (str, StringV):
            s = sv(base)
            if type(idx) is Struct and idx.ty in ('Range', 'RangeFrom', 'RangeTo', 'RangeInclusive', 'RangeFull'):
                if idx.ty == 'Range':
                    a, b = idx.fields
                elif idx.ty == 'RangeFrom':
                    a, b = idx.fields[0], None
                elif idx.ty == 'RangeTo':
                    a, b = 0, idx.fields[0]
                else:
                    raise Inconclusive('str index %s' % idx.ty)
                if is_sym(a) or is_sym(b):
                    raise Inconclusive('symbolic str slice')
                return bslice(s, a, b)
        if type(base) in (VecV, Arr) and isinstance(idx, int):
            if idx >= len(base.fields):
                raise RustPanic('index out of bounds')
            return Ref(base.fields, idx)
        raise Inconclusive('index %s' % ci.path)


# ================================================================================================
# std models (TABLE)

@model('String::new')
def _(it, ci, a, d):
    return StringV('')


@model('String::len', 'str::len')
def _(it, ci, a, d):
    return slen(a[0])


@model('String::push_str')
def _(it, ci, a, d):
    s = deref(a[0])
    x = deref(a[1])
    if s.guard is not None:
        raise Inconclusive('guarded string mutated')
    if s.s is not None and type(x) in (str, StringV) and (type(x) is str or x.s is not None):
        s.s = s.s + sv(x)
    else:
        n = slen(s) + slen(x)
        s.s = None
        s.n = n
    return UNIT


@model('String::push')
def _(it, ci, a, d):
    s = deref(a[0])
    s.s = sv(s) + a[1].c
    return UNIT


@model('String::as_str')
def _(it, ci, a, d):
    return sv(a[0])


@model('String::is_empty', 'str::is_empty')
def _(it, ci, a, d):
    n = slen(a[0])
    return n == 0


@model('str::trim')
def _(it, ci, a, d):
    return sv(a[0]).strip(WS)


@model('str::trim_end')
def _(it, ci, a, d):
    return sv(a[0]).rstrip(WS)


@model('str::trim_start')
def _(it, ci, a, d):
    return sv(a[0]).lstrip(WS)


# Rust's char::is_whitespace set (White_Space property)
WS = ''.join(chr(c) for c in [9, 10, 11, 12, 13, 32, 0x85, 0xA0, 0x1680] + list(range(0x2000, 0x200B)) + [0x2028, 0x2029, 0x202F, 0x205F, 0x3000])


def _pat(p):
    if type(p) is Char:
        return p.c
    if type(p) in (FnItem, Closure) or (type(p) is Ref and type(p.get()) in (FnItem, Closure)):
        raise PredicatePattern(p)
    return sv(p)


class PredicatePattern(Exception):
    def __init__(self, p):
        self.p = p


def pred_holds(it, p, ch):
    r = it.call_value(p, [Char(ch)])
    return it.decide(r, 'pattern_pred')


def with_pred(fn_str, fn_pred):
    """model for a str method taking a Pattern: string/char patterns via fn_str, predicate patterns (fn items, closures) via fn_pred"""
    def h(it, ci, a, d):
        try:
            return fn_str(it, ci, a, d)
        except PredicatePattern as e:
            return fn_pred(it, a, e.p)
    return h


@model('str::trim_matches')
def _(it, ci, a, d):
    p = _pat(a[1])
    if len(p) != 1:
        raise Inconclusive('trim_matches with a multi-char string pattern')
    return sv(a[0]).strip(p)


@model('str::trim_start_matches')
def _(it, ci, a, d):
    s = sv(a[0])
    p = _pat(a[1])
    while p and s.startswith(p):
        s = s[len(p):]
    return s


@model('str::trim_end_matches')
def _(it, ci, a, d):
    s = sv(a[0])
    p = _pat(a[1])
    while p and s.endswith(p):
        s = s[:-len(p)]
    return s


@model('str::starts_with')
def _(it, ci, a, d):
    return sv(a[0]).startswith(_pat(a[1]))


@model('str::ends_with')
def _(it, ci, a, d):
    return sv(a[0]).endswith(_pat(a[1]))


@model('str::contains')
def _(it, ci, a, d):
    return _pat(a[1]) in sv(a[0])


@model('str::replace')
def _(it, ci, a, d):
    return StringV(sv(a[0]).replace(_pat(a[1]), sv(a[2])))


@model('str::to_string', 'str::to_owned', 'String::clone')
def _(it, ci, a, d):
    return StringV(sv(a[0]))


class AbsChars:
    """chars() of a string whose content is abstract: only count() is supported; the number of chars
    of a UTF-8 string of n bytes is between ceil(n/4) and n (a fresh symbolic value)"""
    _k = [0]

    def __init__(self, n):
        self.n = n

    def next(self):
        raise Inconclusive('iteration over the chars of an abstract string')


@model('str::chars')
def _(it, ci, a, d):
    v = deref(a[0])
    if isinstance(v, AbsStr) or (type(v) is StringV and v.s is None):
        return Opaque('AbsChars', AbsChars(slen(v)))
    return Opaque('Chars', PyIter([Char(c) for c in sv(a[0])]))


@model('Chars::peekable', 'Iter::peekable', 'IntoIter::peekable')
def _(it, ci, a, d):
    return Opaque('Peekable', PeekIter(a[0].data))


@model('Peekable::peek')
def _(it, ci, a, d):
    p = deref(a[0]).data
    v = p.peek()
    if v is None:
        return none()
    return some(Ref(p.peeked, 0))


@model('Iter::enumerate', 'IntoIter::enumerate', 'Chars::enumerate')
def _(it, ci, a, d):
    return Opaque('Enumerate', EnumerateIter(a[0].data))


@model('char::is_ascii_whitespace')
def _(it, ci, a, d):
    c = deref(a[0]).c
    return c in ' \t\n\x0c\r'


@model('char::is_ascii_alphanumeric')
def _(it, ci, a, d):
    c = deref(a[0]).c
    return c.isascii() and c.isalnum()


@model('char::is_ascii_alphabetic')
def _(it, ci, a, d):
    c = deref(a[0]).c
    return c.isascii() and c.isalpha()


@model('char::is_ascii_digit')
def _(it, ci, a, d):
    c = deref(a[0]).c
    return c.isascii() and c.isdigit()


# ---- Vec / slices
@model('Vec::new')
def _(it, ci, a, d):
    return VecV([])


def _concrete_vec(ref):
    """a Vec that is an abstract node of the grammar engine (the result of a repetition taken as one inductive step) becomes a
    one-element vector holding that node when the code edits it (push / insert of further nodes)"""
    v = deref(ref)
    if type(v) is Opaque and v.kind == 'ANode':
        r = ref
        while type(r) is Ref and type(r.get()) is Ref:
            r = r.get()
        if type(r) is Ref:
            nv = VecV([v])
            r.lst[r.idx] = nv
            return nv
    return v


@model('Vec::push')
def _(it, ci, a, d):
    _concrete_vec(a[0]).fields.append(a[1])
    return UNIT


@model('Vec::pop')
def _(it, ci, a, d):
    v = deref(a[0])
    if v.fields:
        return some(v.fields.pop())
    return none()


@model('Vec::append')
def _(it, ci, a, d):
    v = deref(a[0])
    o = deref(a[1])
    v.fields.extend(o.fields)
    del o.fields[:]
    return UNIT


@model('Vec::len', 'slice::len')
def _(it, ci, a, d):
    return len(deref(a[0]).fields)


@model('Vec::is_empty', 'slice::is_empty')
def _(it, ci, a, d):
    return len(deref(a[0]).fields) == 0


@model('Vec::clear')
def _(it, ci, a, d):
    del deref(a[0]).fields[:]
    return UNIT


@model('slice::reverse')
def _(it, ci, a, d):
    deref(a[0]).fields.reverse()
    return UNIT


@model('slice::get')
def _(it, ci, a, d):
    v = deref(a[0])
    i = a[1]
    if is_sym(i):
        raise Inconclusive('symbolic slice::get index')
    if i < len(v.fields):
        return some(Ref(v.fields, i))
    return none()


@model('slice::last', 'Vec::last')
def _(it, ci, a, d):
    v = deref(a[0])
    if v.fields:
        return some(Ref(v.fields, len(v.fields) - 1))
    return none()


@model('slice::iter', 'Vec::iter')
def _(it, ci, a, d):
    v = deref(a[0])
    return Opaque('SliceIter', PyIter([Ref(v.fields, i) for i in range(len(v.fields))]))


@model('slice::contains')
def _(it, ci, a, d):
    v = deref(a[0])
    x = a[1]
    m = it.models
    m.called['slice::contains(structural eq)'] = m.called.get('slice::contains(structural eq)', 0) + 1
    for e in v.fields:
        if m.struct_eq(it, e, x):
            return True
    return False


def generic_cmp(it, a, b):
    """Ord::cmp of two element references through the normal dispatch (models, overrides, MIR impls) -> -1/0/1"""
    from interp import parse_callee
    ci = parse_callee('<T as Ord>::cmp')
    r = it.models.dispatch(it, ci, [a, b], None)
    r = it.concretize(r)
    return r.idx


def _binary_search_by(it, v, f):
    """core::slice::binary_search_by as in the standard library (1.8x and later): fixed iteration count, no early exit.
    The result on a slice that is not sorted is unspecified by the documentation but determined by this algorithm;
    counterexamples are replayed on the real build before being reported."""
    n = len(v.fields)
    size = n
    if size == 0:
        return err(0)
    base = 0
    while size > 1:
        half = size // 2
        mid = base + half
        c = f(mid)
        base = base if c > 0 else mid
        size -= half
    c = f(base)
    if c == 0:
        return ok(base)
    return err(base + (1 if c < 0 else 0))


@model('slice::binary_search', 'Vec::binary_search')
def _(it, ci, a, d):
    v = deref(a[0])
    it.models.called['slice::binary_search(std algorithm)'] = it.models.called.get('slice::binary_search(std algorithm)', 0) + 1
    return _binary_search_by(it, v, lambda i: generic_cmp(it, Ref(v.fields, i), a[1]))


@model('slice::binary_search_by', 'Vec::binary_search_by')
def _(it, ci, a, d):
    v = deref(a[0])

    def f(i):
        r = it.concretize(it.call_value(deref(a[1]), [Ref(v.fields, i)]))
        return r.idx
    return _binary_search_by(it, v, f)


@model('slice::binary_search_by_key', 'Vec::binary_search_by_key')
def _(it, ci, a, d):
    v = deref(a[0])

    def f(i):
        k = it.call_value(deref(a[2]), [Ref(v.fields, i)])
        return generic_cmp(it, Ref([k], 0), a[1])
    return _binary_search_by(it, v, f)


@model('slice::into_vec', 'slice::to_vec')
def _(it, ci, a, d):
    v = deref(a[0])
    return VecV(list(v.fields))


@model('alloc::boxed::box_new', 'Box::new', 'boxed::box_new')
def _(it, ci, a, d):
    return BoxV(a[0])


# ---- Option / Result
@model('Option::unwrap')
def _(it, ci, a, d):
    v = it.concretize(a[0])
    if v.variant == 'Some':
        return v.fields[0]
    raise RustPanic('called `Option::unwrap()` on a `None` value')


@model('Option::expect')
def _(it, ci, a, d):
    v = it.concretize(a[0])
    if v.variant == 'Some':
        return v.fields[0]
    raise RustPanic('Option::expect: ' + sv(a[1]))


@model('Option::is_some')
def _(it, ci, a, d):
    v = deref(a[0])
    v = it.concretize(v)
    return v.variant == 'Some'


@model('Option::is_none')
def _(it, ci, a, d):
    v = deref(a[0])
    v = it.concretize(v)
    return v.variant == 'None'


@model('Option::ok_or')
def _(it, ci, a, d):
    v = it.concretize(a[0])
    if v.variant == 'Some':
        return ok(v.fields[0])
    return err(a[1])


@model('Option::as_ref')
def _(it, ci, a, d):
    v = deref(a[0])
    v = it.concretize(v)
    if v.variant == 'Some':
        return some(Ref(v.fields, 0))
    return none()


@model('Option::map')
def _(it, ci, a, d):
    v = it.concretize(a[0])
    if v.variant == 'Some':
        return some(it.call_value(a[1], [v.fields[0]]))
    return none()


@model('Result::unwrap')
def _(it, ci, a, d):
    v = it.concretize(a[0])
    if v.variant == 'Ok':
        return v.fields[0]
    raise RustPanic('called `Result::unwrap()` on an `Err` value')


@model('Result::map_err')
def _(it, ci, a, d):
    v = it.concretize(a[0])
    if v.variant == 'Ok':
        return v
    return err(it.call_value(a[1], [v.fields[0]]))


@model('Result::is_ok')
def _(it, ci, a, d):
    return it.concretize(deref(a[0])).variant == 'Ok'


@model('Result::is_err')
def _(it, ci, a, d):
    return it.concretize(deref(a[0])).variant == 'Err'


@model('must_use', 'hint::must_use')
def _(it, ci, a, d):
    return a[0]


# ---- HashMap
def _hm(v):
    v = deref(v)
    if type(v) is Opaque and v.kind == 'HashMap':
        return v.data
    raise Inconclusive('expected HashMap, got %r' % (v,))


@model('HashMap::new', 'HashMap::default')
def _(it, ci, a, d):
    return Opaque('HashMap', HashMapV())


@model('HashMap::entry')
def _(it, ci, a, d):
    hm = _hm(a[0])
    key = a[1]
    if type(key) is not StringV:
        raise Inconclusive('HashMap key %r' % (key,))
    return Opaque('HashEntry', {'hm': hm, 'key': key.s, 'guard': key.guard})


def _entry_present(it, e):
    hm, k = e['hm'], e['key']
    old = hm.entries.get(k)
    if old is None or old.present is False:
        return None
    if e.get('guard') is not None and old.present is not True:
        raise Inconclusive('HashMap::entry: guarded key meets an entry of symbolic presence')
    if old.present is not True:
        if not it.decide(old.present, 'hm_entry_present'):
            return None
        old.present = True
    return old


def _entry_insert(e, val):
    hm, k = e['hm'], e['key']
    hm.entries.pop(k, None)
    # a guarded key (one iteration of a copy loop over a table with symbolic presence) inserts an entry present under that guard
    g = e.get('guard')
    hm.entries[k] = HEntry(StringV(k), True if g is None else g, [val])
    return hm.entries[k]


@model('Entry::or_insert', 'Entry::or_insert_with', 'Entry::or_default', 'Entry::or_insert_with_key')
def _(it, ci, a, d):
    e = deref(a[0]).data
    old = _entry_present(it, e)
    if old is None:
        if ci.name == 'or_insert':
            v = a[1]
        elif ci.name == 'or_insert_with':
            v = it.call_value(a[1], [])
        elif ci.name == 'or_insert_with_key':
            v = it.call_value(a[1], [Ref([StringV(e['key'])], 0)])
        else:
            raise Inconclusive('Entry::or_default')
        old = _entry_insert(e, v)
    return Ref(old.val, 0)


@model('Entry::and_modify')
def _(it, ci, a, d):
    e = deref(a[0]).data
    old = _entry_present(it, e)
    if old is not None:
        it.call_value(a[1], [Ref(old.val, 0)])
    return a[0]


@model('Entry::key')
def _(it, ci, a, d):
    return Ref([StringV(deref(a[0]).data['key'])], 0)


@model('HashMap::insert')
def _(it, ci, a, d):
    hm = _hm(a[0])
    key = a[1]
    val = a[2]
    if type(key) is not StringV:
        raise Inconclusive('HashMap key %r' % (key,))
    g = key.guard
    k = key.s
    old = hm.entries.get(k)
    if g is None:
        if old is None or old.present is False:
            hm.entries.pop(k, None)
            hm.entries[k] = HEntry(StringV(k), True, [val])
            return none()
        if old.present is True:
            ov = old.val[0]
            old.val = [val]      # std keeps the old key
            return some(ov)
        # symbolic presence: fork
        if it.decide(old.present, 'hm_insert_present'):
            ov = old.val[0]
            old.present = True
            old.val = [val]
            return some(ov)
        old.present = True
        old.val = [val]
        return none()
    # guarded insert (copy loop over a table with symbolic presence)
    if old is None or old.present is False:
        hm.entries.pop(k, None)
        hm.entries[k] = HEntry(StringV(k), g, [val])
        return none()
    newp = z3.simplify(z3.Or(g, old.present if is_sym(old.present) else z3.BoolVal(old.present)))
    old.val = [Choice([(g, val), (z3.Not(g), old.val[0])], 'hm_guarded')]
    old.present = True if z3.is_true(newp) else newp
    return Choice([(g, some(UNIT)), (z3.Not(g), none())], 'hm_guarded_old')


@model('HashMap::contains_key')
def _(it, ci, a, d):
    hm = _hm(a[0])
    k = sv(a[1])
    e = hm.entries.get(k)
    if e is None:
        return False
    return e.present


@model('HashMap::get')
def _(it, ci, a, d):
    hm = _hm(a[0])
    k = sv(a[1])
    e = hm.entries.get(k)
    if e is None or e.present is False:
        return none()
    if e.present is not True:
        if it.decide(e.present, 'hm_get_present:' + k):
            e.present = True
        else:
            e.present = False
            return none()
    return some(Ref(e.val, 0))


@model('HashMap::remove')
def _(it, ci, a, d):
    hm = _hm(a[0])
    k = sv(a[1])
    e = hm.entries.get(k)
    if e is None or e.present is False:
        return none()
    if e.present is not True:
        p = it.decide(e.present, 'hm_remove_present:' + k)
        if not p:
            e.present = False
            return none()
    del hm.entries[k]
    return some(e.val[0])


@model('HashMap::clear')
def _(it, ci, a, d):
    _hm(a[0]).entries.clear()
    return UNIT


@model('HashMap::iter')
def _(it, ci, a, d):
    return it.models.hashmap_iter(it, _hm(a[0]))


@model('HashMap::clone')
def _(it, ci, a, d):
    return Opaque('HashMap', _hm(a[0]).clone())


# ---- BTreeMap
@model('BTreeMap::new')
def _(it, ci, a, d):
    return Opaque('BTreeMap', BTreeV())


@model('BTreeMap::insert')
def _(it, ci, a, d):
    bt = deref(a[0]).data
    old = bt.insert(it, a[1], a[2])
    return opt_of(old)


@model('BTreeMap::get')
def _(it, ci, a, d):
    bt = deref(a[0]).data
    k = a[1]
    loc = (k.lst, k.idx) if type(k) is Ref else ([k], 0)
    r = bt.get(it, loc)
    if r is None:
        return none()
    return some(Ref(r[0], r[1]))


class DequeIter:
    def __init__(self, items):
        self.items = list(items)

    def next(self):
        return self.items.pop(0) if self.items else None

    def next_back(self):
        return self.items.pop() if self.items else None


@model('BTreeMap::range', 'BTreeMap::range_mut')
def _(it, ci, a, d):
    bt = deref(a[0]).data
    rg = a[1]
    lo = hi = None
    lo_incl = hi_incl = True
    if type(rg) is Struct:
        if rg.ty == 'Range':
            lo, hi, hi_incl = rg.fields[0], rg.fields[1], False
        elif rg.ty == 'RangeTo':
            hi, hi_incl = rg.fields[0], False
        elif rg.ty == 'RangeToInclusive':
            hi = rg.fields[0]
        elif rg.ty == 'RangeFrom':
            lo = rg.fields[0]
        elif rg.ty == 'RangeInclusive':
            lo, hi = rg.fields[0], rg.fields[1]
        elif rg.ty == 'RangeFull':
            pass
        else:
            raise Inconclusive('BTreeMap::range with %s' % rg.ty)
    else:
        raise Inconclusive('BTreeMap::range bounds %r' % (rg,))
    out = []
    for node_keys, i, vals in bt.locs():
        k = node_keys[i]
        inside = True
        if lo is not None:
            c = bt.cmp(it, (node_keys, i), ([lo], 0))
            inside = c > 0 or (c == 0 and lo_incl)
        if inside and hi is not None:
            c = bt.cmp(it, (node_keys, i), ([hi], 0))
            inside = c < 0 or (c == 0 and hi_incl)
        if inside:
            out.append(Tup([Ref(node_keys, i), Ref(vals, i)]))
    return Opaque('BTreeRange', DequeIter(out))


@model('BTreeMap::iter', 'BTreeMap::values', 'BTreeMap::keys')
def _(it, ci, a, d):
    bt = deref(a[0]).data
    items = []
    for node_keys, i, vals in bt.locs():
        if ci.name == 'iter':
            items.append(Tup([Ref(node_keys, i), Ref(vals, i)]))
        elif ci.name == 'values':
            items.append(Ref(vals, i))
        else:
            items.append(Ref(node_keys, i))
    return Opaque('BTreeIter', DequeIter(items))


@model('BTreeMap::len')
def _(it, ci, a, d):
    return deref(a[0]).data.length


@model('BTreeMap::is_empty')
def _(it, ci, a, d):
    return deref(a[0]).data.length == 0


@model('BTreeMap::contains_key')
def _(it, ci, a, d):
    bt = deref(a[0]).data
    k = a[1]
    loc = (k.lst, k.idx) if type(k) is Ref else ([k], 0)
    return bt.get(it, loc) is not None


@model('BTreeMap::extend', 'BTreeMap::append')
def _(it, ci, a, d):
    # Extend<(K, V)>: one insert per element, in iteration order
    bt = deref(a[0]).data
    src = a[1]
    if type(src) is Ref:
        src = src.get()
    if type(src) is Opaque and src.kind == 'BTreeMap' and ci.name == 'append':
        pairs = list(src.data.items())
        src.data.root, src.data.length = None, 0
    else:
        srci = src if (type(src) is Opaque and hasattr(src.data, 'next')) else it.models.std_into_iter(it, src)
        pairs = [tuple(x.fields) for x in iter_drain(it, srci)]
    for k, v in pairs:
        bt.insert(it, k, v)
    return UNIT


@model('BTreeMap::pop_last', 'BTreeMap::pop_first')
def _(it, ci, a, d):
    bt = deref(a[0]).data
    r = bt.pop_end(ci.name == 'pop_last')
    return none() if r is None else some(Tup([r[0], r[1]]))


@model('BTreeMap::remove', 'BTreeMap::remove_entry')
def _(it, ci, a, d):
    bt = deref(a[0]).data
    k = a[1]
    loc = (k.lst, k.idx) if type(k) is Ref else ([k], 0)
    path = bt._path_to(it, loc)
    if path is None:
        return none()
    rk, rv = bt.remove_path(path)
    return some(rv) if ci.name == 'remove' else some(Tup([rk, rv]))


@model('BTreeMap::get_mut')
def _(it, ci, a, d):
    return TABLE['BTreeMap::get'](it, ci, a, d)


@model('BTreeMap::clear')
def _(it, ci, a, d):
    bt = deref(a[0]).data
    bt.root, bt.length = None, 0
    return UNIT


@model('BTreeMap::last_key_value', 'BTreeMap::first_key_value')
def _(it, ci, a, d):
    bt = deref(a[0]).data
    ls = list(bt.locs())
    if not ls:
        return none()
    node_keys, i, vals = ls[-1] if ci.name == 'last_key_value' else ls[0]
    return some(Tup([Ref(node_keys, i), Ref(vals, i)]))


# ---- Path / PathBuf
@model('Path::to_string_lossy')
def _(it, ci, a, d):
    return Enum('Cow', 'Borrowed', 0, [sv(a[0])])


@model('Path::new')
def _(it, ci, a, d):
    return PathV(sv(a[0]))


# ---- formatting (only concrete)
@model('Argument::new_display', 'Argument::new_debug')
def _(it, ci, a, d):
    v = deref(a[0])
    if type(v) is Enum and v.ty == 'Cow':
        v = v.fields[0]
    return Opaque('FmtArg', v)


@model('Arguments::new', 'Arguments::new_const', 'Arguments::new_v1')
def _(it, ci, a, d):
    return Opaque('FmtArguments', list(a))


def _fmt_template(b):
    """rustc's compact format-string encoding used by Arguments::new::<N, M>(bytes, args)"""
    raise Inconclusive('format template decoding')


@model('fmt::format', 'format')
def _(it, ci, a, d):
    h = it.env.get('format_hook')
    if h is None:
        raise Inconclusive('format! without hook')
    return h(it, a)


@model('Box::new_uninit')
def _(it, ci, a, d):
    return BoxV(Struct('MaybeUninit', [UNIT, Struct('ManuallyDrop', [Struct('MaybeDangling', [None])])]))


@model('box_assume_init_into_vec_unsafe', 'boxed::box_assume_init_into_vec_unsafe')
def _(it, ci, a, d):
    arr = a[0].cell[0].fields[1].fields[0].fields[0]
    return VecV(list(arr.fields))


# ================================================================================================
# Iterator adaptors (generic over any iterator value: Opaque with .next(), or repo iterator structs)

class FnIter:
    """iterator defined by a python generator function"""

    def __init__(self, gen):
        self.gen = gen

    def next(self):
        try:
            return next(self.gen)
        except StopIteration:
            return None


def iter_next(it, v):
    """next element of an iterator value (or None)"""
    tgt = deref(v)
    if type(tgt) is Opaque and hasattr(tgt.data, 'next'):
        return tgt.data.next()
    cell = [tgt]
    okk, r = it.models.call_mir(it, 'next', [Ref(cell, 0)], trait='Iterator')
    if not okk:
        raise Inconclusive('not an iterator: %r' % (tgt,))
    r = it.concretize(r)
    return r.fields[0] if r.variant == 'Some' else None


def iter_drain(it, v):
    while True:
        x = iter_next(it, v)
        if x is None:
            return
        yield x


def truthy(it, b):
    return it.decide(b, 'closure_bool')


ITER = {}


def itermethod(name):
    def deco(fn):
        ITER[name] = fn
        return fn
    return deco


@itermethod('map')
def _(it, ci, a, d):
    src, f = a
    return Opaque('Map', FnIter(it.call_value(f, [x]) for x in iter_drain(it, src)))


@itermethod('filter')
def _(it, ci, a, d):
    src, f = a
    return Opaque('Filter', FnIter(x for x in iter_drain(it, src) if truthy(it, it.call_value(f, [Ref([x], 0)]))))


@itermethod('filter_map')
def _(it, ci, a, d):
    src, f = a

    def g():
        for x in iter_drain(it, src):
            r = it.concretize(it.call_value(f, [x]))
            if r.variant == 'Some':
                yield r.fields[0]
    return Opaque('FilterMap', FnIter(g()))


@itermethod('find')
def _(it, ci, a, d):
    src, f = a
    for x in iter_drain(it, src):
        if truthy(it, it.call_value(f, [Ref([x], 0)])):
            return some(x)
    return none()


@itermethod('find_map')
def _(it, ci, a, d):
    src, f = a
    for x in iter_drain(it, src):
        r = it.concretize(it.call_value(f, [x]))
        if r.variant == 'Some':
            return r
    return none()


@itermethod('position')
def _(it, ci, a, d):
    src, f = a
    for i, x in enumerate(iter_drain(it, src)):
        if truthy(it, it.call_value(f, [x])):
            return some(i)
    return none()


@itermethod('any')
def _(it, ci, a, d):
    src, f = a
    for x in iter_drain(it, src):
        if truthy(it, it.call_value(f, [x])):
            return True
    return False


@itermethod('all')
def _(it, ci, a, d):
    src, f = a
    for x in iter_drain(it, src):
        if not truthy(it, it.call_value(f, [x])):
            return False
    return True


@itermethod('for_each')
def _(it, ci, a, d):
    src, f = a
    for x in iter_drain(it, src):
        it.call_value(f, [x])
    return UNIT


@itermethod('fold')
def _(it, ci, a, d):
    src, init, f = a
    acc = init
    for x in iter_drain(it, src):
        acc = it.call_value(f, [acc, x])
    return acc


@itermethod('count')
def _(it, ci, a, d):
    src = a[0]
    if type(src) is Opaque and src.kind == 'AbsChars':
        n = src.data.n
        AbsChars._k[0] += 1
        c = z3.Int('charcount_%d' % AbsChars._k[0])
        it.assume(z3.And(c >= 0, c <= n, 4 * c >= n))
        return c
    return sum(1 for _ in iter_drain(it, a[0]))


@itermethod('last')
def _(it, ci, a, d):
    r = None
    for x in iter_drain(it, a[0]):
        r = x
    return opt_of(r)


@itermethod('nth')
def _(it, ci, a, d):
    n = a[1]
    for i, x in enumerate(iter_drain(it, a[0])):
        if i == n:
            return some(x)
    return none()


@itermethod('skip')
def _(it, ci, a, d):
    src, n = a

    def g():
        for i, x in enumerate(iter_drain(it, src)):
            if i >= n:
                yield x
    return Opaque('Skip', FnIter(g()))


@itermethod('take')
def _(it, ci, a, d):
    src, n = a

    def g():
        for i, x in enumerate(iter_drain(it, src)):
            if i >= n:
                return
            yield x
    return Opaque('Take', FnIter(g()))


@itermethod('take_while')
def _(it, ci, a, d):
    src, f = a

    def g():
        for x in iter_drain(it, src):
            if not truthy(it, it.call_value(f, [Ref([x], 0)])):
                return
            yield x
    return Opaque('TakeWhile', FnIter(g()))


@itermethod('skip_while')
def _(it, ci, a, d):
    src, f = a

    def g():
        skipping = True
        for x in iter_drain(it, src):
            if skipping and truthy(it, it.call_value(f, [Ref([x], 0)])):
                continue
            skipping = False
            yield x
    return Opaque('SkipWhile', FnIter(g()))


@itermethod('chain')
def _(it, ci, a, d):
    s1, s2 = a

    def g():
        for x in iter_drain(it, s1):
            yield x
        s2i = it.models.std_into_iter(it, s2) if not (type(s2) is Opaque and hasattr(s2.data, 'next')) else s2
        for x in iter_drain(it, s2i):
            yield x
    return Opaque('Chain', FnIter(g()))


@itermethod('zip')
def _(it, ci, a, d):
    s1, s2 = a
    s2i = s2 if (type(s2) is Opaque and hasattr(s2.data, 'next')) else it.models.std_into_iter(it, s2)

    def g():
        while True:
            x = iter_next(it, s1)
            if x is None:
                return
            y = iter_next(it, s2i)
            if y is None:
                return
            yield Tup([x, y])
    return Opaque('Zip', FnIter(g()))


@itermethod('rev')
def _(it, ci, a, d):
    items = list(iter_drain(it, a[0]))
    items.reverse()
    return Opaque('Rev', PyIter(items))


@itermethod('enumerate')
def _(it, ci, a, d):
    return Opaque('Enumerate', FnIter(Tup([i, x]) for i, x in enumerate(iter_drain(it, a[0]))))


@itermethod('peekable')
def _(it, ci, a, d):
    src = a[0]
    if type(src) is Opaque and hasattr(src.data, 'next'):
        return Opaque('Peekable', PeekIter(src.data))
    return Opaque('Peekable', PeekIter(FnIter(iter_drain(it, src))))


@itermethod('cloned')
def _(it, ci, a, d):
    return Opaque('Cloned', FnIter(deep_clone(deref(x)) for x in iter_drain(it, a[0])))


@itermethod('copied')
def _(it, ci, a, d):
    return Opaque('Copied', FnIter(copyval(deref(x)) for x in iter_drain(it, a[0])))


@itermethod('flatten')
def _(it, ci, a, d):
    def g():
        for x in iter_drain(it, a[0]):
            x = it.concretize(x)
            if type(x) is Enum and x.ty == 'Option':
                if x.variant == 'Some':
                    yield x.fields[0]
                continue
            xi = x if (type(x) is Opaque and hasattr(x.data, 'next')) else it.models.std_into_iter(it, x)
            for y in iter_drain(it, xi):
                yield y
    return Opaque('Flatten', FnIter(g()))


@itermethod('flat_map')
def _(it, ci, a, d):
    src, f = a

    def g():
        for x in iter_drain(it, src):
            r = it.call_value(f, [x])
            r = it.concretize(r) if type(r) is Choice else r
            if type(r) is Enum and r.ty == 'Option':
                if r.variant == 'Some':
                    yield r.fields[0]
                continue
            ri = r if (type(r) is Opaque and hasattr(r.data, 'next')) else it.models.std_into_iter(it, r)
            for y in iter_drain(it, ri):
                yield y
    return Opaque('FlatMap', FnIter(g()))


@itermethod('reduce')
def _(it, ci, a, d):
    src, f = a
    acc = iter_next(it, src)
    if acc is None:
        return none()
    for x in iter_drain(it, src):
        acc = it.call_value(f, [acc, x])
    return some(acc)


@itermethod('map_while')
def _(it, ci, a, d):
    src, f = a

    def g():
        for x in iter_drain(it, src):
            r = it.concretize(it.call_value(f, [x]))
            if r.variant != 'Some':
                return
            yield r.fields[0]
    return Opaque('MapWhile', FnIter(g()))


@itermethod('inspect')
def _(it, ci, a, d):
    src, f = a

    def g():
        for x in iter_drain(it, src):
            it.call_value(f, [Ref([x], 0)])
            yield x
    return Opaque('Inspect', FnIter(g()))


@itermethod('rposition')
def _(it, ci, a, d):
    src, f = a
    items = list(iter_drain(it, src))
    for i in range(len(items) - 1, -1, -1):
        if truthy(it, it.call_value(f, [items[i]])):
            return some(i)
    return none()


@itermethod('unzip')
def _(it, ci, a, d):
    xs, ys = [], []
    for x in iter_drain(it, a[0]):
        xs.append(x.fields[0])
        ys.append(x.fields[1])
    return Tup([VecV(xs), VecV(ys)])


@itermethod('partition')
def _(it, ci, a, d):
    src, f = a
    xs, ys = [], []
    for x in iter_drain(it, src):
        (xs if truthy(it, it.call_value(f, [Ref([x], 0)])) else ys).append(x)
    return Tup([VecV(xs), VecV(ys)])


@itermethod('try_fold')
def _(it, ci, a, d):
    src, init, f = a
    acc = init
    for x in iter_drain(it, src):
        r = it.concretize(it.call_value(f, [acc, x]))
        if r.variant in ('Ok', 'Some', 'Continue'):
            acc = r.fields[0]
        else:
            return r
    t = norm_type(d) if d else ''
    if t == 'Option':
        return some(acc)
    if t == 'ControlFlow':
        return Enum('ControlFlow', 'Continue', 0, [acc])
    return ok(acc)


@itermethod('by_ref')
def _(it, ci, a, d):
    return a[0]


@itermethod('size_hint')
def _(it, ci, a, d):
    return Tup([0, none()])


@model('iter::once', 'sources::once::once', 'once::once', 'once')
def _(it, ci, a, d):
    return Opaque('Once', PyIter([a[0]]))


@model('iter::empty', 'sources::empty::empty', 'empty::empty')
def _(it, ci, a, d):
    return Opaque('Empty', PyIter([]))


@model('iter::repeat_n', 'sources::repeat_n::repeat_n', 'repeat_n::repeat_n')
def _(it, ci, a, d):
    n = a[1]
    if is_sym(n):
        raise Inconclusive('repeat_n with symbolic count')
    return Opaque('RepeatN', PyIter([deep_clone(a[0]) for _ in range(n)]))


@itermethod('collect')
def _(it, ci, a, d):
    items = list(iter_drain(it, a[0]))
    tgt = ''
    m = re.search(r'collect::<(.*)>$', ci.path.strip())
    if m:
        tgt = norm_type(m.group(1))
    if not tgt and d:
        tgt = norm_type(d)
    if tgt == 'Vec':
        return VecV(items)
    if tgt in ('Option', 'Result'):
        out = []
        for x in items:
            x = it.concretize(x)
            if x.variant in ('None', 'Err'):
                return x
            out.append(x.fields[0])
        return some(VecV(out)) if tgt == 'Option' else ok(VecV(out))
    if tgt == 'String':
        out = []
        for x in items:
            out.append(x.c if type(x) is Char else sv(x))
        return StringV(''.join(out))
    if tgt == 'HashMap':
        hm = HashMapV()
        for x in items:
            k, v = x.fields
            if type(k) is not StringV:
                k = StringV(sv(k))
            if k.guard is not None:
                # copying a table of symbolic presence: the copy holds the entry under the same guard (a later duplicate of the
                # key is not expected from a map iteration)
                if k.s in hm.entries:
                    raise Inconclusive('collect: guarded key %r twice' % k.s)
                hm.entries[k.s] = HEntry(StringV(k.s), k.guard, [v])
                continue
            hm.entries.pop(k.s, None)
            hm.entries[k.s] = HEntry(k, True, [v])
        return Opaque('HashMap', hm)
    raise Inconclusive('collect into %r (%s)' % (tgt, ci.path[-80:]))


@itermethod('sum')
def _(it, ci, a, d):
    s = 0
    for x in iter_drain(it, a[0]):
        s = s + deref(x)
    return s


@itermethod('max')
def _(it, ci, a, d):
    items = [deref(x) for x in iter_drain(it, a[0])]
    if any(is_sym(x) for x in items):
        raise Inconclusive('max of symbolic')
    return opt_of(max(items) if items else None)


@itermethod('min')
def _(it, ci, a, d):
    items = [deref(x) for x in iter_drain(it, a[0])]
    if any(is_sym(x) for x in items):
        raise Inconclusive('min of symbolic')
    return opt_of(min(items) if items else None)


@model('str::parse')
def _(it, ci, a, d):
    # str::parse::<T>() = <T as FromStr>::from_str(s): integers are parsed here, repository types through their own impl (MIR)
    m = re.search(r'parse::<(.*)>$', ci.path.strip())
    ty = norm_type(m.group(1)) if m else None
    from interp import INTS
    if ty in INTS:
        t = sv(a[0])
        try:
            return ok(int(t, 10)) if re.fullmatch(r'[+-]?[0-9]+', t) else err(Opaque('ParseIntError', t))
        except ValueError:
            return err(Opaque('ParseIntError', t))
    okk, r = it.models.call_mir(it, 'from_str', [a[0]], self_base=ty, trait='FromStr')
    if okk:
        return r
    raise Inconclusive('str::parse::<%s>' % ty)


@model('bool::then_some')
def _(it, ci, a, d):
    c = a[0]
    c = it.decide(c, 'then_some') if is_sym(c) else bool(c)
    return some(a[1]) if c else none()


@model('bool::then')
def _(it, ci, a, d):
    c = a[0]
    c = it.decide(c, 'then') if is_sym(c) else bool(c)
    return some(it.call_value(a[1], [])) if c else none()


# ---- more Option / Result combinators
@model('Option::unwrap_or')
def _(it, ci, a, d):
    v = it.concretize(a[0])
    return v.fields[0] if v.variant == 'Some' else a[1]


@model('Option::unwrap_or_default', 'Result::unwrap_or_default')
def _(it, ci, a, d):
    v = it.concretize(a[0])
    if v.variant in ('Some', 'Ok'):
        return v.fields[0]
    t = norm_type(d) if d else ''
    if t == 'String':
        return StringV('')
    if t == 'PathBuf':
        return PathV('')
    if t == 'Vec':
        return VecV([])
    if t in ('usize', 'u32', 'u64', 'i32'):
        return 0
    if t == 'bool':
        return False
    raise Inconclusive('unwrap_or_default for %s' % d)


@model('Option::unwrap_or_else')
def _(it, ci, a, d):
    v = it.concretize(a[0])
    return v.fields[0] if v.variant == 'Some' else it.call_value(a[1], [])


@model('Result::unwrap_or_else')
def _(it, ci, a, d):
    v = it.concretize(a[0])
    return v.fields[0] if v.variant == 'Ok' else it.call_value(a[1], [v.fields[0]])


@model('Result::unwrap_or')
def _(it, ci, a, d):
    v = it.concretize(a[0])
    return v.fields[0] if v.variant == 'Ok' else a[1]


@model('Option::map_or')
def _(it, ci, a, d):
    v = it.concretize(a[0])
    return it.call_value(a[2], [v.fields[0]]) if v.variant == 'Some' else a[1]


@model('Option::map_or_else')
def _(it, ci, a, d):
    v = it.concretize(a[0])
    return it.call_value(a[2], [v.fields[0]]) if v.variant == 'Some' else it.call_value(a[1], [])


@model('Option::and_then')
def _(it, ci, a, d):
    v = it.concretize(a[0])
    return it.call_value(a[1], [v.fields[0]]) if v.variant == 'Some' else none()


@model('Result::and_then')
def _(it, ci, a, d):
    v = it.concretize(a[0])
    return it.call_value(a[1], [v.fields[0]]) if v.variant == 'Ok' else v


@model('Result::map')
def _(it, ci, a, d):
    v = it.concretize(a[0])
    return ok(it.call_value(a[1], [v.fields[0]])) if v.variant == 'Ok' else v


@model('Option::or')
def _(it, ci, a, d):
    v = it.concretize(a[0])
    return v if v.variant == 'Some' else a[1]


@model('Option::or_else')
def _(it, ci, a, d):
    v = it.concretize(a[0])
    return v if v.variant == 'Some' else it.call_value(a[1], [])


@model('Option::filter')
def _(it, ci, a, d):
    v = it.concretize(a[0])
    if v.variant == 'Some' and truthy(it, it.call_value(a[1], [Ref(v.fields, 0)])):
        return v
    return none()


@model('Option::flatten')
def _(it, ci, a, d):
    v = it.concretize(a[0])
    return it.concretize(v.fields[0]) if v.variant == 'Some' else none()


@model('Option::ok_or_else')
def _(it, ci, a, d):
    v = it.concretize(a[0])
    return ok(v.fields[0]) if v.variant == 'Some' else err(it.call_value(a[1], []))


@model('Result::ok')
def _(it, ci, a, d):
    v = it.concretize(a[0])
    return some(v.fields[0]) if v.variant == 'Ok' else none()


@model('Result::err')
def _(it, ci, a, d):
    v = it.concretize(a[0])
    return some(v.fields[0]) if v.variant == 'Err' else none()


@model('Option::as_deref')
def _(it, ci, a, d):
    v = it.concretize(deref(a[0]))
    if v.variant == 'Some':
        x = v.fields[0]
        return some(sv(x) if type(deref(x)) in (StringV, str) else x)
    return none()


@model('Option::as_mut')
def _(it, ci, a, d):
    v = it.concretize(deref(a[0]))
    return some(Ref(v.fields, 0)) if v.variant == 'Some' else none()


@model('Option::take')
def _(it, ci, a, d):
    r = a[0]
    v = it.concretize(r.get())
    r.set(none())
    return v


@model('Option::cloned', 'Option::copied')
def _(it, ci, a, d):
    v = it.concretize(a[0])
    return some(deep_clone(deref(v.fields[0]))) if v.variant == 'Some' else none()


@model('Option::is_some_and')
def _(it, ci, a, d):
    v = it.concretize(a[0])
    return v.variant == 'Some' and truthy(it, it.call_value(a[1], [v.fields[0]]))


# ---- more Vec / HashMap / String
@model('Vec::extend', 'Vec::extend_from_slice')
def _(it, ci, a, d):
    v = deref(a[0])
    src = a[1]
    si = src if (type(src) is Opaque and hasattr(src.data, 'next')) else it.models.std_into_iter(it, src)
    for x in iter_drain(it, si):
        v.fields.append(x)
    return UNIT


@model('Vec::insert')
def _(it, ci, a, d):
    v = _concrete_vec(a[0])
    if a[1] > len(v.fields):
        raise RustPanic('insertion index out of bounds')
    v.fields.insert(a[1], a[2])
    return UNIT


@model('Vec::remove')
def _(it, ci, a, d):
    v = deref(a[0])
    if a[1] >= len(v.fields):
        raise RustPanic('removal index out of bounds')
    return v.fields.pop(a[1])


@model('Vec::truncate')
def _(it, ci, a, d):
    v = deref(a[0])
    del v.fields[a[1]:]
    return UNIT


@model('Vec::with_capacity')
def _(it, ci, a, d):
    return VecV([])


@model('Vec::first', 'slice::first')
def _(it, ci, a, d):
    v = deref(a[0])
    return some(Ref(v.fields, 0)) if v.fields else none()


@model('Vec::contains')
def _(it, ci, a, d):
    return TABLE['slice::contains'](it, ci, a, d)


@model('HashMap::extend')
def _(it, ci, a, d):
    hm = _hm(a[0])
    src = a[1]
    if type(src) is Opaque and src.kind == 'HashMap':
        for k, e in list(src.data.entries.items()):
            if e.present is False:
                continue
            if e.present is not True:
                if not it.decide(e.present, 'hm_extend_present:' + k):
                    continue
            hm.entries.pop(k, None) if False else None
            old = hm.entries.get(k)
            if old is not None and old.present is not False:
                if old.present is not True:
                    old.present = True
                old.val = [e.val[0]]
            else:
                hm.entries.pop(k, None)
                hm.entries[k] = HEntry(StringV(k), True, [e.val[0]])
        return UNIT
    si = src if (type(src) is Opaque and hasattr(src.data, 'next')) else it.models.std_into_iter(it, src)
    for x in iter_drain(it, si):
        TABLE['HashMap::insert'](it, ci, [a[0], x.fields[0], x.fields[1]], None)
    return UNIT


@model('HashMap::len')
def _(it, ci, a, d):
    hm = _hm(a[0])
    n = 0
    for k, e in hm.entries.items():
        if e.present is True:
            n += 1
        elif e.present is not False:
            if it.decide(e.present, 'hm_len_present:' + k):
                e.present = True
                n += 1
            else:
                e.present = False
    return n


@model('HashMap::is_empty')
def _(it, ci, a, d):
    return TABLE['HashMap::len'](it, ci, a, d) == 0


@model('HashMap::get_mut')
def _(it, ci, a, d):
    return TABLE['HashMap::get'](it, ci, a, d)


@model('HashMap::keys')
def _(it, ci, a, d):
    hm = _hm(a[0])
    items = []
    for k, e in hm.entries.items():
        if e.present is False:
            continue
        if e.present is not True and not it.decide(e.present, 'hm_keys_present:' + k):
            continue
        items.append(Ref([e.key], 0))
    return Opaque('Keys', PyIter(items))


@model('HashMap::retain')
def _(it, ci, a, d):
    hm = _hm(a[0])
    for k, e in list(hm.entries.items()):
        if e.present is False:
            continue
        if e.present is not True:
            if not it.decide(e.present, 'hm_retain_present:' + k):
                e.present = False
                continue
            e.present = True
        if not truthy(it, it.call_value(a[1], [Ref([e.key], 0), Ref(e.val, 0)])):
            del hm.entries[k]
    return UNIT


@model('String::from_utf8_lossy')
def _(it, ci, a, d):
    raise Inconclusive('from_utf8_lossy')


@model('String::insert_str')
def _(it, ci, a, d):
    s = deref(a[0])
    s.s = sv(s)[:a[1]] + sv(a[2]) + sv(s)[a[1]:]
    return UNIT


@model('String::clear')
def _(it, ci, a, d):
    deref(a[0]).s = ''
    return UNIT


@model('String::truncate')
def _(it, ci, a, d):
    s = deref(a[0])
    s.s = bslice(sv(s), 0, a[1])
    return UNIT


@model('String::pop')
def _(it, ci, a, d):
    s = deref(a[0])
    x = sv(s)
    if not x:
        return none()
    s.s = x[:-1]
    return some(Char(x[-1]))


@model('String::with_capacity')
def _(it, ci, a, d):
    return StringV('')


@model('str::split_whitespace')
def _(it, ci, a, d):
    return Opaque('SplitWhitespace', PyIter(sv(a[0]).split()))


@model('str::lines')
def _(it, ci, a, d):
    return Opaque('Lines', PyIter(sv(a[0]).splitlines()))


@model('str::find')
def _(it, ci, a, d):
    s = sv(a[0])
    p = a[1]
    k = s.find(_pat(p))
    return none() if k < 0 else some(len(s[:k].encode('utf-8')))


@model('str::rfind')
def _(it, ci, a, d):
    s = sv(a[0])
    p = a[1]
    k = s.rfind(p.c if type(p) is Char else sv(p))
    return none() if k < 0 else some(len(s[:k].encode('utf-8')))


@model('str::strip_prefix')
def _(it, ci, a, d):
    s = sv(a[0])
    p = _pat(a[1])
    return some(s[len(p):]) if s.startswith(p) else none()


@model('str::strip_suffix')
def _(it, ci, a, d):
    s = sv(a[0])
    p = _pat(a[1])
    return some(s[:len(s) - len(p)]) if s.endswith(p) else none()


@model('str::split')
def _(it, ci, a, d):
    return Opaque('Split', PyIter(sv(a[0]).split(_pat(a[1]))))


@model('str::as_bytes')
def _(it, ci, a, d):
    return Ref([VecV(list(sv(a[0]).encode('utf-8')))], 0)


@model('str::is_char_boundary')
def _(it, ci, a, d):
    return _is_boundary(sv(a[0]).encode('utf-8'), a[1])


@model('str::get')
def _(it, ci, a, d):
    s = sv(a[0])
    idx = a[1]
    try:
        if idx.ty == 'Range':
            return some(bslice(s, idx.fields[0], idx.fields[1]))
        if idx.ty == 'RangeFrom':
            return some(bslice(s, idx.fields[0], None))
        if idx.ty == 'RangeTo':
            return some(bslice(s, 0, idx.fields[0]))
    except RustPanic:
        return none()
    raise Inconclusive('str::get')


@model('str::char_indices')
def _(it, ci, a, d):
    s = sv(a[0])
    items = []
    off = 0
    for c in s:
        items.append(Tup([off, Char(c)]))
        off += len(c.encode('utf-8'))
    return Opaque('CharIndices', PyIter(items))


@model('str::to_lowercase')
def _(it, ci, a, d):
    return StringV(sv(a[0]).lower())


@model('str::to_uppercase')
def _(it, ci, a, d):
    return StringV(sv(a[0]).upper())


@model('str::repeat')
def _(it, ci, a, d):
    return StringV(sv(a[0]) * a[1])


@model('char::is_whitespace')
def _(it, ci, a, d):
    return deref(a[0]).c in WS


@model('char::is_alphanumeric')
def _(it, ci, a, d):
    return deref(a[0]).c.isalnum()


@model('char::is_alphabetic')
def _(it, ci, a, d):
    return deref(a[0]).c.isalpha()


@model('char::is_numeric')
def _(it, ci, a, d):
    return deref(a[0]).c.isnumeric()


@model('char::is_ascii')
def _(it, ci, a, d):
    return deref(a[0]).c.isascii()


def _char_pred(name, fn):
    @model('char::' + name)
    def _m(it, ci, a, d, fn=fn):
        v = deref(a[0])
        c = v.c if type(v) is Char else (chr(v) if isinstance(v, int) else None)
        if c is None:
            raise Inconclusive('char::%s on %r' % (name, v))
        return bool(fn(c))


_char_pred('is_ascii_graphic', lambda c: 33 <= ord(c) <= 126)
_char_pred('is_ascii_control', lambda c: ord(c) < 32 or ord(c) == 127)
_char_pred('is_ascii_uppercase', lambda c: 'A' <= c <= 'Z')
_char_pred('is_ascii_lowercase', lambda c: 'a' <= c <= 'z')
_char_pred('is_ascii_hexdigit', lambda c: c in '0123456789abcdefABCDEF')
_char_pred('is_control', lambda c: __import__('unicodedata').category(c) == 'Cc')
_char_pred('is_uppercase', lambda c: c.isupper())
_char_pred('is_lowercase', lambda c: c.islower())
_char_pred('is_numeric', lambda c: c.isnumeric())
_char_pred('is_alphabetic', lambda c: c.isalpha())


@model('char::to_ascii_lowercase', 'char::to_ascii_uppercase')
def _(it, ci, a, d):
    c = deref(a[0]).c
    if not c.isascii():
        return Char(c)
    return Char(c.lower() if ci.name == 'to_ascii_lowercase' else c.upper())


@model('char::is_ascii_punctuation')
def _(it, ci, a, d):
    import string
    return deref(a[0]).c in string.punctuation


@model('char::len_utf8')
def _(it, ci, a, d):
    return len(deref(a[0]).c.encode('utf-8'))


@model('mem::swap', 'swap')
def _(it, ci, a, d):
    x, y = a[0].get(), a[1].get()
    a[0].set(y)
    a[1].set(x)
    return UNIT


@model('mem::replace', 'replace')
def _(it, ci, a, d):
    old = a[0].get()
    a[0].set(a[1])
    return old


@model('mem::take', 'take')
def _(it, ci, a, d):
    old = a[0].get()
    t = type(old)
    if t is VecV:
        a[0].set(VecV([]))
    elif t is StringV:
        a[0].set(StringV(''))
    elif t is Opaque and old.kind == 'HashMap':
        a[0].set(Opaque('HashMap', HashMapV()))
    elif t is Enum and old.ty == 'Option':
        a[0].set(none())
    elif t is bool:
        a[0].set(False)
    elif t is int:
        a[0].set(0)
    else:
        raise Inconclusive('mem::take of %r' % (old,))
    return old


@model('mem::drop', 'drop')
def _(it, ci, a, d):
    return UNIT


@model('str::matches')
def _(it, ci, a, d):
    s = sv(a[0])
    p = _pat(a[1])
    out = []
    i = 0
    while p:
        k = s.find(p, i)
        if k < 0:
            break
        out.append(p)
        i = k + len(p)
    return Opaque('Matches', PyIter(out))


@model('str::match_indices')
def _(it, ci, a, d):
    s = sv(a[0])
    p = _pat(a[1])
    out = []
    i = 0
    while p:
        k = s.find(p, i)
        if k < 0:
            break
        out.append(Tup([len(s[:k].encode('utf-8')), p]))
        i = k + len(p)
    return Opaque('MatchIndices', PyIter(out))


@model('str::bytes')
def _(it, ci, a, d):
    return Opaque('Bytes', PyIter(list(sv(a[0]).encode('utf-8'))))


# ---- panics
def _panic(msg):
    def h(it, ci, a, d):
        detail = ''
        try:
            if a and type(a[0]) is str:
                detail = ': ' + a[0]
        except Exception:
            pass
        raise RustPanic(msg + detail, ci.path[:80])
    return h


for _k, _m in [('panicking::assert_failed', 'assertion `left == right` failed'), ('panicking::panic', 'explicit panic'),
               ('panicking::panic_fmt', 'panic'), ('panicking::panic_display', 'panic'), ('panicking::panic_explicit', 'explicit panic'),
               ('panicking::panic_bounds_check', 'index out of bounds'), ('panicking::panic_nounwind', 'panic'),
               ('panicking::unreachable_display', 'entered unreachable code'), ('panicking::panic_str', 'panic'),
               ('option::unwrap_failed', 'called `Option::unwrap()` on a `None` value'), ('option::expect_failed', 'expect failed'),
               ('result::unwrap_failed', 'called `Result::unwrap()` on an `Err` value'),
               ('rt::begin_panic', 'panic'), ('panicking::begin_panic', 'panic'),
               ('str::slice_error_fail', 'str slice index error'), ('index::slice_index_order_fail', 'slice index starts after end'),
               ('index::slice_end_index_len_fail', 'range end index out of range'), ('index::slice_start_index_len_fail', 'range start index out of range')]:
    TABLE[_k] = _panic(_m)


# ---- str methods with predicate patterns (char::is_whitespace, |c| ...)
TABLE['str::starts_with'] = with_pred(TABLE['str::starts_with'], lambda it, a, p: bool(sv(a[0])) and pred_holds(it, p, sv(a[0])[0]))
TABLE['str::ends_with'] = with_pred(TABLE['str::ends_with'], lambda it, a, p: bool(sv(a[0])) and pred_holds(it, p, sv(a[0])[-1]))
TABLE['str::contains'] = with_pred(TABLE['str::contains'], lambda it, a, p: any(pred_holds(it, p, c) for c in sv(a[0])))


def _trim_pred(it, a, p, left, right):
    s = sv(a[0])
    i, j = 0, len(s)
    if left:
        while i < j and pred_holds(it, p, s[i]):
            i += 1
    if right:
        while j > i and pred_holds(it, p, s[j - 1]):
            j -= 1
    return s[i:j]


TABLE['str::trim_matches'] = with_pred(TABLE['str::trim_matches'], lambda it, a, p: _trim_pred(it, a, p, True, True))
TABLE['str::trim_start_matches'] = with_pred(TABLE['str::trim_start_matches'], lambda it, a, p: _trim_pred(it, a, p, True, False))
TABLE['str::trim_end_matches'] = with_pred(TABLE['str::trim_end_matches'], lambda it, a, p: _trim_pred(it, a, p, False, True))


def _find_pred(it, a, p):
    s = sv(a[0])
    for k, c in enumerate(s):
        if pred_holds(it, p, c):
            return some(len(s[:k].encode('utf-8')))
    return none()


TABLE['str::find'] = with_pred(TABLE['str::find'], _find_pred)
