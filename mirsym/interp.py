"""Symbolic interpreter for rustc MIR (Engine M).

Concrete values are Python objects (values.py); symbolic scalars are z3 terms.  A branch on a
symbolic value forks; forks are explored by re-execution with a decision prefix (Explorer).
Every MIR assert / panic path on a symbolic condition becomes a panic obligation.
"""
import re, sys, os, time, threading
import z3
from mir import MirFile, LazyBlocks, MirParseError, split_top, match_close, find_top, parse_header
from values import *
import tables

sys.setrecursionlimit(200000)
USIZE_MAX = (1 << 64) - 1
INT_BITS = {'u8': 8, 'u16': 16, 'u32': 32, 'u64': 64, 'usize': 64, 'u128': 128,
            'i8': 8, 'i16': 16, 'i32': 32, 'i64': 64, 'isize': 64, 'i128': 128}


class Inconclusive(Exception):
    """construct outside the supported subset: the check must not pass on it"""


class RustPanic(Exception):
    def __init__(self, msg, where=''):
        Exception.__init__(self, msg)
        self.msg = msg
        self.where = where


class PathInfeasible(Exception):
    pass


class StepLimit(Exception):
    pass


# ------------------------------------------------------------------------------------------------
# type-name normalisation for dispatch

_re_generic_param = re.compile(r'^[A-Z]\d*$')


def strip_generics(s):
    """remove every <...> group (not '<impl ..>' / '<X as Y>' leading groups handled by caller)"""
    out = []
    depth = 0
    i = 0
    n = len(s)
    while i < n:
        c = s[i]
        if c == '-' and s[i + 1:i + 2] == '>':
            if depth == 0:
                out.append('->')
            i += 2
            continue
        if c == '<':
            depth += 1
        elif c == '>':
            depth -= 1
        elif depth == 0:
            out.append(c)
        i += 1
    return ''.join(out)


def norm_type(t):
    t = t.strip()
    pre = ''
    while t.startswith('&'):
        pre += '&'
        t = t[1:].strip()
        t = re.sub(r"^'\w+\s*", '', t)
        if t.startswith('mut '):
            t = t[4:].strip()
    if t.startswith('*const ') or t.startswith('*mut '):
        pre += '&'
        t = t.split(' ', 1)[1]
    if t.startswith('('):
        inner = t[1:match_close(t, 0)].strip()
        if not inner:
            return pre + 'unit'
        parts = split_top(inner)
        if parts and parts[-1] == '':
            parts = parts[:-1]
        return pre + 'tuple%d' % len(parts)
    if t.startswith('['):
        inner = t[1:match_close(t, 0)]
        if find_top(inner, ';') >= 0:
            return pre + 'array'
        return pre + 'slice'
    if t.startswith('{closure@'):
        return pre + 'closure@' + t[9:].split(':')[0] + ':' + t[9:].split(':')[1]
    if t.startswith('impl ') or t.startswith('dyn '):
        return pre + '*'
    base = strip_generics(t).split('::')[-1].strip()
    if _re_generic_param.match(base):
        return pre + '*'
    return pre + base


def rt_type(v):
    t = type(v)
    if t is Ref:
        try:
            return '&' + rt_type(v.lst[v.idx])
        except Exception:
            return '&?'
    if t is Struct or t is Enum:
        return v.ty
    if t is Tup:
        return 'tuple%d' % len(v.fields) if v.fields else 'unit'
    if t is VecV:
        return 'Vec'
    if t is BoxV:
        return 'Box'
    if t is StringV:
        return 'String'
    if t is str or issubclass(t, AbsStr):
        return '&str'
    if t is PathV:
        return 'PathBuf'
    if t is bool:
        return 'bool'
    if t is int:
        return 'int'
    if t is Arr:
        return 'array'
    if t is Closure:
        return 'closure@' + v.span
    if t is Opaque:
        return v.kind
    if t is Choice:
        return rt_type(v.alts[0][1])
    if t is Char:
        return 'char'
    if t is FnItem:
        return 'fn'
    if is_sym(v):
        return 'bool' if z3.is_bool(v) else 'int'
    return '?'


INTS = {'usize', 'u8', 'u16', 'u32', 'u64', 'u128', 'isize', 'i8', 'i16', 'i32', 'i64', 'i128', 'int'}


_LENIENT_EQ = [{'Path', 'PathBuf'}, {'str', 'String'}, {'slice', 'Vec', 'array'}]


def type_compat_lenient(norm, rt):
    """second-chance matching: the run-time shape of a value does not record how many references / deref
    coercions the source went through (Deref/AsRef models are transparent), so reference depth and the
    owned/borrowed flavour of paths, strings and slices are ignored"""
    a, b = norm.lstrip('&'), rt.lstrip('&')
    if a == b or a == '*' or b == '?':
        return True
    if a == 'Self' or (len(a) <= 2 and a[:1].isupper() and a.isalnum()):
        return True       # default method of a trait (`&Self`) / generic parameter (T, U, V, T0): any receiver
    if a.startswith('impl '):
        return True       # `impl Trait` argument
    if (a.startswith('fn(') or a.startswith('for<')) and (b == 'fn' or b.startswith('closure@')):
        return True       # function-pointer parameter receiving a function item / capture-less closure
    if any(a in g and b in g for g in _LENIENT_EQ):
        return True
    return type_compat(a, b)


def type_compat(norm, rt):
    if norm == rt:
        return True
    if norm == '*':
        return True
    if norm.startswith('&') and rt.startswith('&'):
        return type_compat(norm[1:], rt[1:])
    if norm.startswith('&') != rt.startswith('&'):
        # &str values are python str ('&str'); PathV may stand for &Path
        if norm == '&Path' and rt == 'PathBuf':
            return True
        return False
    if norm in INTS and rt in INTS:
        return True
    if norm == 'slice' and rt in ('Vec', 'array'):
        return True
    if norm == 'Path' and rt == 'PathBuf':
        return True
    if norm.startswith('closure@') and rt.startswith('closure@'):
        return rt[8:].startswith(norm[8:])
    if rt == '?':
        return True
    return False


# ------------------------------------------------------------------------------------------------

class FnEntry:
    __slots__ = ('mf', 'idx', 'name', 'simple', 'argnorm', 'retnorm', 'impl_span', 'closure_span', 'header')

    def __getstate__(self):
        return tuple(getattr(self, k) for k in self.__slots__)

    def __setstate__(self, st):
        for k, v in zip(self.__slots__, st):
            setattr(self, k, v)


class CalleeInfo:
    __slots__ = ('path', 'qself', 'trait', 'prefix', 'name', 'qbase', 'tbase', 'targ', 'pbase', 'key')


def parse_callee(path):
    ci = CalleeInfo()
    ci.path = path
    ci.qself = ci.trait = ci.prefix = None
    ci.qbase = ci.tbase = ci.targ = ci.pbase = None
    p = path.strip()
    qualified = p.startswith('<') and not p.startswith('<impl ')
    if p.startswith('<impl '):
        # `<impl Trait as Trait>::method`: a call through an `impl Trait` argument (generic helper taking impl FnOnce / impl IntoIterator)
        try:
            qualified = find_top(p[1:match_close(p, 0)], ' as ') >= 0
        except Exception:
            qualified = False
    if qualified:
        close = match_close(p, 0)
        inner = p[1:close]
        k = find_top(inner, ' as ')
        if k >= 0:
            ci.qself = inner[:k].strip()
            ci.trait = inner[k + 4:].strip()
        else:
            ci.qself = inner.strip()
        rest = p[close + 1:]
        assert rest.startswith('::'), path
        rest = rest[2:]
        # method name (strip turbofish)
        ci.name = strip_generics(rest).split('::')[0].strip()
        ci.qbase = norm_type(ci.qself)
        if ci.trait:
            tb = ci.trait
            kk = tb.find('<')
            ci.tbase = (tb[:kk] if kk >= 0 else tb).split('::')[-1]
            if kk >= 0:
                args = split_top(tb[kk + 1:match_close(tb, kk)])
                args = [a for a in args if a and not a.startswith("'")]
                if args:
                    ci.targ = norm_type(args[0])
    else:
        s = strip_generics(p)
        segs = [x.strip() for x in s.split('::') if x.strip()]
        ci.name = segs[-1]
        ci.prefix = '::'.join(segs[:-1])
        ci.pbase = segs[-2] if len(segs) >= 2 else None
        if ci.pbase and ci.pbase.startswith('<impl'):
            # core::str::<impl str>::trim  (strip_generics ate '<impl str>')
            pass
    return ci


_re_impl_str = re.compile(r'<impl ([^>]*(?:<[^>]*>)?[^>]*)>')


class Program:
    """all MIR dumps + type tables + function index"""

    def __init__(self, mirdir='/verif/build/mir', repo='/repo', crates=None, target_dirs=('/verif/build/mir-target',)):
        self.repo = repo
        self.files = {}
        names = crates or ['pp', 'sv-parser', 'sv-parser-syntaxtree', 'sv-parser-parser']
        for c in names:
            p = os.path.join(mirdir, c + '.mir')
            if os.path.exists(p):
                self.files[c] = MirFile(p, c)
        self.td = tables.load_typedefs(repo, target_dirs)
        self.by_simple = {}
        self.closures = {}
        self.consts = {}
        self.const_items = {}
        self._index()
        self._lb = {}
        self._impl_self = {}
        self._src_cache = {}
        self.encoded = {}   # function name -> blocks (evidence)
        self._find_cache = {}

    def _index(self):
        import pickle
        key = ('v2',) + tuple(sorted((c, os.path.getsize(mf.path), os.stat(mf.path).st_mtime_ns) for c, mf in self.files.items()))
        cpath = os.path.join(os.path.dirname(next(iter(self.files.values())).path), 'fnindex.pickle') if self.files else None
        if cpath and os.path.exists(cpath):
            try:
                with open(cpath, 'rb') as fh:
                    k, by_simple, closures, const_items = pickle.load(fh)
                if k == key:
                    for lst in by_simple.values():
                        for e in lst:
                            e.mf = self.files[e.mf]
                    for lst in closures.values():
                        for e in lst:
                            if isinstance(e.mf, str):
                                e.mf = self.files[e.mf]
                    self.by_simple, self.closures = by_simple, closures
                    self.const_items = {n: [(a, self.files[b], c, d) for a, b, c, d in v] for n, v in const_items.items()}
                    return
            except Exception:
                pass
        self._index_build()
        if cpath:
            try:
                for lst in self.by_simple.values():
                    for e in lst:
                        e.mf = e.mf.crate
                ci = {n: [(a, b.crate, c, d) for a, b, c, d in v] for n, v in self.const_items.items()}
                tmp = '%s.tmp.%d' % (cpath, os.getpid())      # two checks may build the index at the same time
                try:
                    with open(tmp, 'wb') as fh:
                        pickle.dump((key, self.by_simple, self.closures, ci), fh)
                    os.replace(tmp, cpath)
                except OSError:
                    pass                                      # the cache is an optimisation only
            finally:
                for lst in self.by_simple.values():
                    for e in lst:
                        if isinstance(e.mf, str):
                            e.mf = self.files[e.mf]

    def _index_build(self):
        for c, mf in self.files.items():
            for idx, (hdr, a, b) in enumerate(mf.items):
                if hdr.startswith('fn '):
                    try:
                        name, args, ret = parse_header(hdr)
                    except Exception:
                        continue
                    e = FnEntry()
                    e.mf = mf
                    e.idx = idx
                    e.name = name
                    e.header = hdr
                    s = strip_generics(name)
                    e.simple = s.split('::')[-1].strip()
                    e.argnorm = [norm_type(t) for _, t in args]
                    e.retnorm = norm_type(ret)
                    m = re.search(r'<impl at ([^>]*?):(\d+):(\d+): (\d+):(\d+)>', name)
                    e.impl_span = (m.group(1), int(m.group(2)), int(m.group(3)), int(m.group(4)), int(m.group(5))) if m else None
                    e.closure_span = None
                    if args and args[0][1].startswith('{closure@'):
                        e.closure_span = args[0][1][9:].rstrip('}')
                        self.closures.setdefault(e.closure_span, []).append(e)
                    elif args and args[0][1].startswith(('&{closure@', '&mut {closure@')):
                        sp = args[0][1][args[0][1].index('{closure@') + 9:].rstrip('}')
                        e.closure_span = sp
                        self.closures.setdefault(sp, []).append(e)
                    self.by_simple.setdefault(e.simple, []).append(e)
                else:
                    m = re.match(r'^(?:const|static mut|static) (.*?): (.*?) = (.*)$', hdr)
                    if m:
                        nm = m.group(1).strip()
                        if '<impl at ' in hdr and nm.count('<') != nm.count('>'):
                            # associated constant `const path::<impl at file:l:c: l:c>::NAME: TY = ..`: the span holds `: ` itself
                            m2 = re.match(r'^(?:const|static mut|static) (.*?<impl at [^>]*>(?:::[\w\[\]]+)+): ', hdr)
                            if m2:
                                nm = m2.group(1).strip()
                        self.const_items.setdefault(nm.split('::')[-1], []).append((nm, mf, idx, hdr))

    def func(self, e):
        return e.mf.load(e.idx)

    def blocks(self, f):
        lb = self._lb.get(id(f))
        if lb is None:
            lb = LazyBlocks(f)
            self._lb[id(f)] = lb
            self.encoded[f.name] = len(f.blocks)
        return lb

    def src_text(self, span):
        """source text of an impl header span (file, l1, c1, l2, c2)"""
        f, l1, c1, l2, c2 = span
        lines = self._src_cache.get(f)
        if lines is None:
            p = os.path.join(self.repo, f)
            if not os.path.exists(p):
                # generated file (any_node.rs in OUT_DIR) or absolute path
                p2 = f if os.path.isabs(f) else None
                if p2 and os.path.exists(p2):
                    p = p2
                else:
                    self._src_cache[f] = []
                    return ''
            lines = open(p, encoding='utf-8').read().split('\n')
            self._src_cache[f] = lines
        if not lines:
            return ''
        if l1 == l2:
            return lines[l1 - 1][c1 - 1:c2 - 1]
        out = [lines[l1 - 1][c1 - 1:]]
        for l in range(l1, l2 - 1):
            out.append(lines[l])
        out.append(lines[l2 - 1][:c2 - 1])
        return ' '.join(out)

    def impl_info(self, span):
        """-> (trait_base or None, self_norm or None) parsed from the impl header in the source"""
        r = self._impl_self.get(span)
        if r is None:
            txt = self.src_text(span).strip()
            r = (None, None)
            if txt.startswith('impl'):
                t = txt[4:].strip()
                if t.startswith('<'):
                    t = t[match_close(t, 0) + 1:].strip()
                k = find_top(t, ' for ')
                if k >= 0:
                    tr = t[:k].strip()
                    st = t[k + 5:].strip()
                    kk = tr.find('<')
                    r = ((tr[:kk] if kk >= 0 else tr).split('::')[-1], norm_type(st))
                else:
                    r = (None, norm_type(t))
            elif txt:
                r = ('derive:' + txt, None)
            self._impl_self[span] = r
        return r

    def drop_types(self):
        """names of the repository types that implement Drop (from the impl headers in the MIR dumps)"""
        r = getattr(self, '_drop_types', None)
        if r is None:
            r = set()
            for e in self.by_simple.get('drop', ()):
                if e.impl_span is not None and len(e.argnorm) == 1:
                    tr, sb = self.impl_info(e.impl_span)
                    if tr == 'Drop' and sb:
                        r.add(sb.lstrip('&'))
            self._drop_types = r
        return r

    def find_fn(self, simple, arg_rts, nargs, ret=None, self_base=None, trait=None):
        """candidates in the MIR dumps matching the constraints (memoised)"""
        key = (simple, tuple(arg_rts), nargs, ret, self_base, trait)
        r = self._find_cache.get(key)
        if r is None:
            r = self._find_fn(simple, arg_rts, nargs, ret, self_base, trait)
            self._find_cache[key] = r
        return r

    def _find_fn(self, simple, arg_rts, nargs, ret=None, self_base=None, trait=None):
        cands = self._find_fn2(simple, arg_rts, nargs, ret, self_base, trait, type_compat)
        if not cands:
            cands = self._find_fn2(simple, arg_rts, nargs, ret, self_base, trait, type_compat_lenient)
        return cands

    def _find_fn2(self, simple, arg_rts, nargs, ret, self_base, trait, type_compat):
        cands = []
        for e in self.by_simple.get(simple, ()):
            if len(e.argnorm) != nargs:
                continue
            ok = True
            for an, rt in zip(e.argnorm, arg_rts):
                if rt is not None and not type_compat(an, rt):
                    ok = False
                    break
            if not ok:
                continue
            if ret is not None and e.retnorm != ret and e.retnorm != '*':
                continue
            if e.impl_span is not None:
                tr, sb = self.impl_info(e.impl_span)
                if trait is not None and tr is not None and not tr.startswith('derive:') and tr != trait:
                    continue
                if self_base is not None and sb is not None and sb != '*' and sb != self_base and sb.lstrip('&') != self_base.lstrip('&'):
                    continue
            elif self_base is not None and nargs == 0:
                continue
            cands.append(e)
        if len(cands) > 1:
            # prefer the most specific (fewest wildcards)
            def wild(e):
                return sum(1 for a in e.argnorm if a.endswith('*'))
            m = min(wild(e) for e in cands)
            cands = [e for e in cands if wild(e) == m]
        return cands


# ------------------------------------------------------------------------------------------------

def is_zst(v):
    """is the value zero-sized (a fn item, or a closure / parser object capturing only such values)?"""
    t = type(v)
    if t is FnItem:
        return True
    if t is Closure or t is Tup:
        return all(is_zst(x) for x in v.fields)
    if t is Opaque and v.kind == 'Parser':
        return all(is_zst(x) for x in _flat(v.data.args))
    return False


def _flat(args):
    for a in args:
        if isinstance(a, (list, tuple)):
            for x in _flat(a):
                yield x
        else:
            yield a


def fifo_put(frame, key, v):
    if is_zst(v):
        frame.setdefault(key, [0, []])[1].append(v)


def fifo_take(frame, key):
    """next not yet consumed value created under `key` in this activation (the last one again when
    all are consumed: loops re-use the same zero-sized parser)"""
    e = frame.get(key)
    if not e or not e[1]:
        return None
    i, q = e
    if i < len(q):
        e[0] = i + 1
        return q[i]
    return q[-1]


class PathResult:
    __slots__ = ('decisions', 'pc', 'outcome', 'value', 'panic', 'obligations', 'steps', 'notes', 'model')


class Interp:
    def __init__(self, prog, models, prefix=(), step_limit=20_000_000, timeout_ms=20000):
        self.prog = prog
        self.td = prog.td
        self.models = models
        self.prefix = list(prefix)
        self.dpos = 0
        self.decisions = []
        self.pending = []       # alternative prefixes discovered on this run
        self.solver = z3.Solver()
        self.solver.set('timeout', timeout_ms)
        self.pc = []
        self.steps = 0
        self.step_limit = step_limit
        self.obligations = []   # (kind, msg, model) panic obligations that can fail
        self.notes = []
        self.env = {}           # harness-provided environment (fs model etc.)
        self.solver_checks = 0
        self.solver_time = 0.0
        self._resolve_cache = {}
        self._const_cache = {}
        self.call_depth = 0
        self.trace_calls = False
        self.fn_names = []
        self.frames = []        # per activation: {closure span: [created closure values not yet consumed]}

    # -- solver --------------------------------------------------------------------------------
    def assume(self, c):
        if c is True:
            return
        if c is False:
            raise PathInfeasible()
        self.pc.append(c)
        self.solver.add(c)

    def feasible(self, c):
        if c is True:
            return True
        if c is False:
            return False
        t = time.time()
        self.solver.push()
        self.solver.add(c)
        r = self.solver.check()
        self.solver.pop()
        self.solver_checks += 1
        self.solver_time += time.time() - t
        if r == z3.unknown:
            raise Inconclusive('solver unknown on feasibility check')
        return r == z3.sat

    def model_for(self, c=None):
        self.solver.push()
        if c is not None:
            self.solver.add(c)
        r = self.solver.check()
        m = None
        if r == z3.sat:
            mm = self.solver.model()
            m = {str(d): str(mm[d]) for d in mm.decls()}
        self.solver.pop()
        return m

    def choose(self, conds, label=''):
        """pick one of the mutually exclusive alternatives (z3 conditions or True); forks"""
        n = len(conds)
        if self.dpos < len(self.prefix):
            k = self.prefix[self.dpos]
            self.dpos += 1
            self.decisions.append(k)
            self.assume(conds[k])
            return k
        feas = [k for k in range(n) if self.feasible(conds[k])]
        if not feas:
            raise PathInfeasible()
        k0 = feas[0]
        for k in feas[1:]:
            self.pending.append(self.decisions + [k])
        self.dpos += 1
        self.prefix.append(k0)
        self.decisions.append(k0)
        if len(feas) > 1 or True:
            self.assume(conds[k0])
        return k0

    def decide(self, cond, label=''):
        """concrete truth value of a (possibly symbolic) bool on this path"""
        if cond is True or cond is False:
            return cond
        if isinstance(cond, int):
            return cond != 0
        c = z3.simplify(cond)
        if z3.is_true(c):
            return True
        if z3.is_false(c):
            return False
        k = self.choose([c, z3.Not(c)], label)
        return k == 0

    def concretize(self, v, label=''):
        """Choice -> one alternative (fork)"""
        while type(v) is Choice:
            k = self.choose([c for c, _ in v.alts], label or v.label)
            v = v.alts[k][1]
        return v

    def obligation(self, ok_cond, msg, where=''):
        """a panic obligation: ok_cond must hold on every model of the path condition"""
        if ok_cond is True:
            return
        if ok_cond is False:
            raise RustPanic(msg, where)
        bad = z3.Not(ok_cond)
        if self.feasible(bad):
            self.obligations.append({'kind': 'panic', 'msg': msg, 'where': where, 'model': self.model_for(bad)})
            if not self.feasible(ok_cond):
                raise RustPanic(msg, where)
        self.assume(ok_cond)

    # -- places --------------------------------------------------------------------------------
    def loc(self, L, p):
        k = p[0]
        if k == 'local':
            return L, p[1]
        if k == 'field':
            lst, i = self.loc(L, p[1])
            v = lst[i]
            t = type(v)
            if t is Choice:
                v = self.concretize(v)
                lst[i] = v
                t = type(v)
            if t is Struct or t is Tup or t is Enum or t is Closure or t is Arr:
                return v.fields, p[2]
            if t is BoxV:
                # (box.0: Unique).0: NonNull ...  -> stays the box
                return lst, i
            if t is Ref and p[2] == 0:
                # NonNull/Unique wrappers around a pointer
                return lst, i
            if t is Opaque and v.kind == 'LocatedSpan':
                # nom_locate::LocatedSpan { offset, line, fragment, extra }: only `extra` is a public field
                return v.data.setdefault('_fields', [v.data.get('off'), v.data.get('line'), None, Struct('SpanInfo', [Opaque('RecursiveInfo', {})])]), p[2]
            if t is VecV or t is StringV or t is Opaque or t is PathV:
                raise Inconclusive('field projection into std container %s' % type(v).__name__)
            raise Inconclusive('field projection on %r' % (v,))
        if k == 'deref':
            lst, i = self.loc(L, p[1])
            v = lst[i]
            t = type(v)
            if t is Ref:
                return v.lst, v.idx
            if t is BoxV:
                return v.cell, 0
            if t is str or issubclass(t, AbsStr):
                return lst, i     # *&str  -> str (unsized); treat as the same value
            if t is Choice:
                v = self.concretize(v)
                lst[i] = v
                return self.loc(L, p)
            raise Inconclusive('deref of %r' % (v,))
        if k == 'downcast':
            lst, i = self.loc(L, p[1])
            v = lst[i]
            if type(v) is Choice:
                v = self.concretize(v)
                lst[i] = v
            if type(v) is not Enum:
                raise Inconclusive('downcast of non-enum %r' % (v,))
            if v.variant != p[2]:
                raise Inconclusive('downcast %s of %s::%s' % (p[2], v.ty, v.variant))
            return lst, i
        if k == 'index':
            lst, i = self.loc(L, p[1])
            v = lst[i]
            ix = L[p[2]]
            if is_sym(ix):
                raise Inconclusive('symbolic index')
            if type(v) in (VecV, Arr):
                if ix >= len(v.fields):
                    raise RustPanic('index out of bounds: the len is %d but the index is %d' % (len(v.fields), ix))
                return v.fields, ix
            raise Inconclusive('index into %r' % (v,))
        if k == 'cidx':
            lst, i = self.loc(L, p[1])
            v = lst[i]
            if type(v) in (VecV, Arr):
                ix = len(v.fields) - p[2] if p[3] else p[2]
                return v.fields, ix
            raise Inconclusive('cidx into %r' % (v,))
        raise Inconclusive('place kind %s' % k)

    def read(self, L, p):
        if p[0] == 'local':
            return L[p[1]]
        lst, i = self.loc(L, p)
        return lst[i]

    def operand(self, L, op):
        k = op[0]
        if k == 'copy' or k == 'move':
            p = op[1]
            if p[0] == 'local':
                v = L[p[1]]
            else:
                lst, i = self.loc(L, p)
                v = lst[i]
            t = type(v)
            if t is int or t is bool or t is str or t is Ref:
                return v
            return copyval(v)
        # const
        ck = op[1]
        if ck == 'path':
            return self.const_path(op[2])
        if ck == 'char':
            return Char(op[2])
        if ck == 'unit':
            return UNIT
        return op[2]

    def const_path(self, name):
        v = self._const_cache.get(name) if not name.startswith('ZeroSized: {closure@') else None
        if v is not None:
            return v
        nm = name.strip()
        if nm.startswith('(') and nm.endswith(')') and match_close(nm, 0) == len(nm) - 1:
            parts = split_top(nm[1:-1])
            if parts and parts[-1] == '':
                parts = parts[:-1]
            from mir import parse_const
            vals = []
            for p_ in parts:
                c = parse_const(p_)
                vals.append(self.operand([], c))
            return Tup(vals)
        hook = self.env.get('const_hook')
        if hook is not None:
            hv = hook(self, name)
            if hv is not None:
                if type(hv).__name__ == 'NoCache':
                    return hv.v
                self._const_cache[name] = hv
                return hv
        if name.startswith('ZeroSized: {closure@'):
            # a closure whose captures are all zero-sized is printed as a constant; its captured values
            # (fn items / other such closures) are those of the closure of this type created last in this
            # activation (FIFO among the not yet consumed ones)
            sp = name[12:-1]
            fr = self.frames[-1] if self.frames else None
            if fr is not None:
                v = fifo_take(fr, sp)
                if v is not None:
                    return v
            return Closure(sp, [], self.fn_names[-1] if self.fn_names else None)
        if name.startswith('ZeroSized: '):
            name2 = name[11:]
            v = FnItem(name2)
            self._const_cache[name] = v
            return v
        simple = strip_generics(name).split('::')[-1].strip()
        items = self.prog.const_items.get(simple)
        m = re.match(r'^(.*)::promoted\[(\d+)\]$', name.strip())
        if m:
            def nrm(x):
                # turbofish of a generic owner (f::<U>::promoted[1]) leaves an empty path segment once generics are stripped
                x = strip_generics(x.strip())
                while '::::' in x:
                    x = x.replace('::::', '::')
                return x
            items = [it for it in self.prog.const_items.get('promoted[%s]' % m.group(2), ()) if it[0] == name.strip()]
            if not items:
                items = [it for it in self.prog.const_items.get('promoted[%s]' % m.group(2), ())
                         if nrm(it[0]) == nrm(name)]
            if not items:
                sn = nrm(name)
                items = [it for it in self.prog.const_items.get('promoted[%s]' % m.group(2), ())
                         if sn.endswith('::' + nrm(it[0])) or nrm(it[0]).endswith('::' + sn)]
            if len(items) != 1:
                raise Inconclusive('promoted constant %s not found uniquely (%d)' % (name, len(items)))
        if items and not m and not any(it[0] == name.strip() for it in items):
            # associated constant: referenced as `Type::NAME`, defined as `<impl at ..>::NAME`; pick the impl whose self type is Type
            segs = [x.strip() for x in strip_generics(name).split('::') if x.strip()]
            owner = segs[-2] if len(segs) >= 2 else None
            assoc = []
            for it_ in items:
                mm_ = re.search(r'<impl at ([^>]*?):(\d+):(\d+): (\d+):(\d+)>', it_[0])
                if mm_ and owner:
                    tr, sb = self.prog.impl_info((mm_.group(1), int(mm_.group(2)), int(mm_.group(3)), int(mm_.group(4)), int(mm_.group(5))))
                    if sb and sb.lstrip('&') == owner:
                        assoc.append(it_)
            if len({a[3] for a in assoc}) == 1 and assoc:
                items = [assoc[0]]
                m = True
        if items:
            cands = (items if m else None) or [it for it in items if it[0] == name.strip()] or \
                    [it for it in items if strip_generics(it[0]).split('::')[-1] == simple and
                     (strip_generics(it[0]).endswith(strip_generics(name.strip())) or strip_generics(name.strip()).endswith(strip_generics(it[0])))]
            if len(cands) >= 1:
                nm, mf, idx, hdr = cands[0]
                if hdr.rstrip().endswith('{'):
                    f = mf.load(idx)
                    v = self.run_func(f, [])
                else:
                    mm = re.match(r'^(?:const|static mut|static) (.*?): (.*?) = (.*);$', hdr)
                    from mir import parse_operand
                    v = self.operand([], parse_operand(mm.group(3)))
                self._const_cache[name] = v
                return v
        v = FnItem(name)
        self._const_cache[name] = v
        return v

    # -- rvalues -------------------------------------------------------------------------------
    def make_adt(self, path, ops, names, dest_ty):
        td = self.td
        s = strip_generics(path)
        segs = [x.strip() for x in s.split('::') if x.strip()]
        last = segs[-1]
        if len(segs) >= 2 and segs[-2] in td.enums and last in td.enums[segs[-2]]:
            e = segs[-2]
            return Enum(e, last, td.variant_index(e, last), ops)
        if dest_ty is not None:
            db = norm_type(dest_ty)
            if db in td.enums and last in td.enums[db]:
                return Enum(db, last, td.variant_index(db, last), ops)
        owners = td.variant_owner.get(last)
        if owners and len(owners) == 1 and last not in td.structs:
            e = next(iter(owners))
            return Enum(e, last, td.variant_index(e, last), ops)
        if owners and last not in td.structs:
            raise Inconclusive('ambiguous enum variant %s (%s)' % (path, sorted(owners)))
        return Struct(last, ops)

    def binop(self, name, a, b):
        sym = is_sym(a) or is_sym(b)
        if type(a) is Char:
            a = ord(a.c)
        if type(b) is Char:
            b = ord(b.c)
        if type(a) is Opaque and type(b) is Opaque and name in ('Eq', 'Ne'):
            same_ = (a.kind == b.kind and a.data == b.data)
            return same_ if name == 'Eq' else not same_
        if name == 'Eq':
            if not sym and type(a) is not type(b) and not (isinstance(a, int) and isinstance(b, int)):
                raise Inconclusive('Eq on %r %r' % (a, b))
            return a == b
        if name == 'Ne':
            return a != b
        if name == 'Lt':
            return a < b
        if name == 'Le':
            return a <= b
        if name == 'Gt':
            return a > b
        if name == 'Ge':
            return a >= b
        if name == 'Add' or name == 'AddUnchecked':
            return a + b
        if name == 'Sub' or name == 'SubUnchecked':
            return a - b
        if name == 'Mul' or name == 'MulUnchecked':
            return a * b
        if name == 'AddWithOverflow':
            r = a + b
            return Tup([r, (r > USIZE_MAX) if sym else (r > self._wmax)])
        if name == 'SubWithOverflow':
            r = a - b
            return Tup([r, r < 0])
        if name == 'MulWithOverflow':
            r = a * b
            return Tup([r, (r > USIZE_MAX) if sym else (r > self._wmax)])
        if sym:
            if name in ('BitAnd', 'BitOr', 'BitXor') and z3.is_bool(a if is_sym(a) else b):
                A = a if is_sym(a) else z3.BoolVal(a)
                B = b if is_sym(b) else z3.BoolVal(b)
                return {'BitAnd': z3.And, 'BitOr': z3.Or, 'BitXor': z3.Xor}[name](A, B)
            raise Inconclusive('symbolic binop %s' % name)
        if name == 'Div':
            if b == 0:
                raise RustPanic('attempt to divide by zero')
            return a // b
        if name == 'Rem':
            if b == 0:
                raise RustPanic('attempt to calculate the remainder with a divisor of zero')
            return a % b
        if name == 'BitAnd':
            return a & b
        if name == 'BitOr':
            return a | b
        if name == 'BitXor':
            return a ^ b
        if name == 'Shl' or name == 'ShlUnchecked':
            return a << b
        if name == 'Shr' or name == 'ShrUnchecked':
            return a >> b
        if name == 'Cmp':
            i = -1 if a < b else (0 if a == b else 1)
            return Enum('Ordering', ['Less', 'Equal', 'Greater'][i + 1], i, [])
        raise Inconclusive('binop %s' % name)

    _wmax = USIZE_MAX

    def rvalue(self, L, rv, dest_ty):
        k = rv[0]
        if k == 'use':
            return self.operand(L, rv[1])
        if k == 'ref' or k == 'rawptr':
            p = rv[2]
            # &(*_x) where _x: &str  -> the str itself
            lst, i = self.loc(L, p)
            v = lst[i]
            if type(v) is str or isinstance(v, AbsStr):
                return v
            return Ref(lst, i)
        if k == 'bin':
            a = self.operand(L, rv[2])
            b = self.operand(L, rv[3])
            if rv[1].endswith('WithOverflow') and not (is_sym(a) or is_sym(b)):
                # width from the destination tuple type "(usize, bool)"
                w = 64
                if dest_ty:
                    m = re.match(r'\((\w+), bool\)', dest_ty)
                    if m and m.group(1) in INT_BITS:
                        w = INT_BITS[m.group(1)]
                self._wmax = (1 << w) - 1
            return self.binop(rv[1], a, b)
        if k == 'un':
            a = self.operand(L, rv[2])
            if rv[1] == 'Not':
                if is_sym(a):
                    return z3.Not(a)
                if type(a) is bool:
                    return not a
                raise Inconclusive('Not on int')
            if rv[1] == 'Neg':
                return -a
            if rv[1] == 'PtrMetadata':
                if type(a) is str:
                    return len(a.encode('utf-8'))
                if type(a) is Ref and type(a.get()) in (VecV, Arr):
                    return len(a.get().fields)
                raise Inconclusive('PtrMetadata of %r' % (a,))
        if k == 'discr':
            lst, i = self.loc(L, rv[1])
            v = lst[i]
            if type(v) is Choice:
                v = self.concretize(v)
                lst[i] = v
            if type(v) is Enum:
                return v.idx
            if type(v) is bool:
                return int(v)
            raise Inconclusive('discriminant of %r' % (v,))
        if k == 'tuple':
            if not rv[1]:
                return UNIT
            return Tup([self.operand(L, o) for o in rv[1]])
        if k == 'array':
            return Arr([self.operand(L, o) for o in rv[1]])
        if k == 'adt':
            ops = [self.operand(L, o) for o in rv[2]]
            return self.make_adt(rv[1], ops, rv[3], dest_ty)
        if k == 'closure':
            return Closure(rv[1], [self.operand(L, o) for o in rv[2]], self.fn_names[-1] if self.fn_names else None)
        if k == 'cast':
            v = self.operand(L, rv[1])
            kind = rv[3]
            ty = rv[2]
            if kind == 'Transmute':
                if type(v) is BoxV:
                    return Ref(v.cell, 0)
                return v
            if kind.startswith('PointerCoercion') or kind.startswith('PtrToPtr') or kind == 'Subtype':
                return v
            if kind == 'IntToInt':
                t = ty.strip()
                if type(v) is bool:
                    v = int(v)
                if type(v) is Char:
                    v = ord(v.c)
                if is_sym(v):
                    return v
                if t in INT_BITS and t.startswith('u'):
                    return v & ((1 << INT_BITS[t]) - 1)
                if t in INT_BITS:
                    w = INT_BITS[t]
                    v &= (1 << w) - 1
                    return v - (1 << w) if v >> (w - 1) else v
            raise Inconclusive('cast %s to %s' % (kind, ty))
        if k == 'len':
            v = self.read(L, rv[1])
            if type(v) in (VecV, Arr):
                return len(v.fields)
            raise Inconclusive('Len of %r' % (v,))
        if k == 'repeat':
            v = self.operand(L, rv[1])
            n = rv[2]
            m = re.match(r'(?:const )?(\d+)', n)
            return Arr([copyval(v) for _ in range(int(m.group(1)))])
        if k == 'boxinit':
            raise Inconclusive('ShallowInitBox')
        raise Inconclusive('rvalue kind %s' % k)

    # -- execution -----------------------------------------------------------------------------
    def run_func(self, f, args):
        prog = self.prog
        lb = prog.blocks(f)
        L = [None] * f.nlocals
        # capture-less closures are zero-sized: MIR need not assign their locals before use; their identity is their type
        zc = getattr(f, '_zst_closures', None)
        if zc is None:
            zc = []
            for n, ty in f.locals.items():
                if isinstance(ty, str) and ty.startswith('{closure@') and ty.endswith('}') and ty.count('{') == 1:
                    zc.append((n, 'closure@' + ty[9:-1]))
            f._zst_closures = zc
        for n, span in zc:
            if n < len(L):
                L[n] = Closure(span, [], f.name)
        for (n, _), a in zip(f.args, args):
            L[n] = a
        if len(args) != len(f.args):
            raise Inconclusive('arity mismatch calling %s' % f.name)
        ltypes = f.locals
        bb = 0
        self.frames.append({})
        self.fn_names.append(f.name)
        self.call_depth += 1
        if self.call_depth > 3000:
            raise RustPanic('unbounded recursion: MIR call depth > 3000 (stack exhaustion) in %s' % f.name)
        try:
            while True:
                stmts, term = lb.get(bb)
                self.steps += len(stmts) + 1
                if self.steps > self.step_limit:
                    raise StepLimit('step limit in %s' % f.name)
                for st in stmts:
                    if st[0] == 'assign':
                        p = st[1]
                        rv = st[2]
                        if p[0] == 'local':
                            L[p[1]] = self.rvalue(L, rv, ltypes.get(p[1]))
                        else:
                            v = self.rvalue(L, rv, None)
                            lst, i = self.loc(L, p)
                            lst[i] = v
                    elif st[0] == 'setdiscr':
                        raise Inconclusive('SetDiscriminant')
                    elif st[0] == 'assume':
                        pass
                k = term[0]
                if k == 'goto':
                    bb = term[1]
                elif k == 'switch':
                    v = self.operand(L, term[1])
                    if type(v) is Choice:
                        v = self.concretize(v)
                    if is_sym(v):
                        if z3.is_bool(v):
                            b = self.decide(v, 'switch')
                            v = 1 if b else 0
                        else:
                            conds = [v == c for c, _ in term[2]]
                            rest = z3.And([v != c for c, _ in term[2]]) if term[2] else True
                            kk = self.choose(conds + [rest], 'switchInt')
                            if kk < len(term[2]):
                                v = term[2][kk][0]
                            else:
                                v = None
                    elif type(v) is bool:
                        v = 1 if v else 0
                    elif type(v) is Char:
                        v = ord(v.c)
                    nxt = term[3]
                    if v is not None:
                        neg = type(v) is int and v < 0
                        for c, t in term[2]:
                            # negative discriminants (Ordering::Less = -1) are printed as their unsigned bit pattern (255 for i8)
                            if c == v or (neg and c in (v + 256, v + 65536, v + 2 ** 32, v + 2 ** 64, v + 2 ** 128)):
                                nxt = t
                                break
                    if nxt is None:
                        raise Inconclusive('switchInt without target')
                    bb = nxt
                elif k == 'call':
                    dest, callee, aops, ret = term[1], term[2], term[3], term[4]
                    args2 = [self.operand(L, o) for o in aops]
                    if callee[0] == 'path':
                        r = self.call_path(callee[1], args2, f, ltypes.get(dest[1]) if dest[0] == 'local' else None)
                    else:
                        fv = self.operand(L, callee[1])
                        r = self.call_value(fv, args2)
                    if ret is None:
                        raise Inconclusive('diverging call returned: %s' % (callee,))
                    if type(r) is Closure:
                        fifo_put(self.frames[-1], r.span, r)
                    if dest[0] == 'local':
                        L[dest[1]] = r
                    else:
                        lst, i = self.loc(L, dest)
                        lst[i] = r
                    bb = ret
                elif k == 'return':
                    return L[0]
                elif k == 'drop':
                    # run a user Drop impl (RAII guards); values of std types have no observable drop in the models.
                    # MIR drop elaboration already decides whether the value is still owned here.
                    try:
                        dv = self.read(L, term[1])
                    except Exception:
                        dv = None
                    if dv is None and term[1][0] == 'local' and self.prog.drop_types():
                        # zero-sized guard (struct Guard;): MIR never writes its bytes, the declared type says what is dropped
                        dty = norm_type(ltypes.get(term[1][1]) or '')
                        if dty in self.prog.drop_types():
                            dv = Struct(dty, [])
                    if type(dv) in (Struct, Enum) and dv.ty in self.prog.drop_types():
                        cell = [dv]
                        cands = self.prog.find_fn('drop', ['&' + dv.ty], 1, None, dv.ty, 'Drop')
                        if len(cands) == 1:
                            self.run_func(self.prog.func(cands[0]), [Ref(cell, 0)])
                        elif cands:
                            raise Inconclusive('ambiguous Drop impl for %s' % dv.ty)
                    bb = term[2]
                elif k == 'assert':
                    c = self.operand(L, term[1])
                    expected = term[2]
                    if is_sym(c):
                        ok = c if expected else z3.Not(c)
                        self.obligation(ok, term[3], f.name)
                    else:
                        if bool(c) != expected:
                            raise RustPanic(term[3], f.name)
                    bb = term[4]
                elif k == 'unreachable':
                    raise Inconclusive('reached `unreachable` in %s bb%d' % (f.name, bb))
                else:
                    raise Inconclusive('terminator %s' % k)
        finally:
            self.call_depth -= 1
            self.frames.pop()
            self.fn_names.pop()

    def call_value(self, fv, args):
        """call a closure / fn item value"""
        if type(fv) is Ref:
            fv = fv.get()
        if type(fv) is Closure:
            sp = fv.span[8:] if fv.span.startswith('closure@') else fv.span
            es = self.prog.closures.get(sp)
            if not es:
                # span text in the aggregate is 'file:l:c: l:c'
                raise Inconclusive('closure body not found: %s' % fv.span)
            e = es[0]
            if len(es) > 1:
                # several closures with one source span: expansions of the same macro in different functions
                owner = getattr(fv, 'owner', None)
                mine = [x for x in es if owner and x.name.startswith(owner + '::{closure')]
                if len(mine) == 1:
                    e = mine[0]
            f = self.prog.func(e)
            first = f.args[0][1]
            if first.startswith('&'):
                cell = [fv]
                a0 = Ref(cell, 0)
            else:
                a0 = fv
            return self.run_func(f, [a0] + list(args))
        if type(fv) is FnItem:
            return self.call_path(fv.path, list(args), None, None)
        raise Inconclusive('call of %r' % (fv,))

    def call_path(self, path, args, caller, dest_ty):
        ci = self._resolve_cache.get(path)
        if ci is None:
            ci = parse_callee(path)
            self._resolve_cache[path] = ci
        if self.trace_calls:
            print('  ' * min(self.call_depth, 40) + 'call', path[:100], [rt_type(a) for a in args], file=sys.stderr)
        r = self.models.dispatch(self, ci, args, dest_ty)
        return r


class Explorer:
    """DFS over decision prefixes; runs `body(interp)` once per path"""

    def __init__(self, prog, models, body, max_paths=2000, step_limit=20_000_000, env=None):
        self.prog = prog
        self.models = models
        self.body = body
        self.max_paths = max_paths
        self.step_limit = step_limit
        self.env = env or {}
        self.results = []
        self.solver_checks = 0
        self.solver_time = 0.0
        self.steps = 0
        self.truncated = False

    def run(self):
        work = [[]]
        while work:
            if len(self.results) >= self.max_paths or (getattr(self, 'deadline', None) and time.time() > self.deadline):
                self.truncated = True
                break
            prefix = work.pop()
            it = Interp(self.prog, self.models, prefix, self.step_limit)
            it.env = dict(self.env)
            r = PathResult()
            r.panic = None
            r.value = None
            try:
                r.value = self.body(it)
                r.outcome = 'ok'
            except RustPanic as e:
                r.outcome = 'panic'
                r.panic = {'msg': e.msg, 'where': e.where}
            except PathInfeasible:
                r.outcome = 'infeasible'
            except StepLimit:
                r.outcome = 'infeasible'
                self.truncated = True
            r.decisions = list(it.decisions)
            r.pc = list(it.pc)
            r.obligations = it.obligations
            r.steps = it.steps
            r.notes = it.notes
            r.model = it.model_for() if r.outcome != 'infeasible' else None
            self.solver_checks += it.solver_checks
            self.solver_time += it.solver_time
            self.steps += it.steps
            for p in it.pending:
                work.append(p)
            if r.outcome != 'infeasible':
                self.results.append(r)
                sw = getattr(self, 'stop_when', None)
                if sw is not None and sw(r):
                    # a counterexample was found: the remaining paths cannot change the verdict
                    self.stopped_early = True
                    break
        return self.results
