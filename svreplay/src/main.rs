// svreplay: native replay / oracle tool.  Runs the REAL sv-parser code (path deps on /repo,
// built with --cfg sv_parser_verif) on concrete requests and prints JSON.  One JSON request per
// stdin line, one JSON response per stdout line ("server" mode, default) or a single request
// given as argv[1] file ("--once <file>").
use serde_json::{json, Map, Value};
use std::collections::HashMap;
use std::io::{BufRead, Write};
use std::path::PathBuf;
use sv_parser::{Define, DefineText, Defines, Error, NodeEvent, PreprocessedText, RefNode, SyntaxTree};
use sv_parser_parser::{Span, SpanInfo};
use sv_parser_pp::range::Range;

fn err_json(e: &Error) -> Value {
    match e {
        Error::Io(x) => json!({"variant":"Io","msg":format!("{}",x)}),
        Error::File { source, path } => {
            json!({"variant":"File","path":path.to_string_lossy(),"msg":format!("{:?}",source.kind())})
        }
        Error::ReadUtf8(p) => json!({"variant":"ReadUtf8","path":p.to_string_lossy()}),
        Error::Include { source } => json!({"variant":"Include","source":err_json(source)}),
        Error::Parse(x) => {
            json!({"variant":"Parse","loc": x.as_ref().map(|(p,o)| json!([p.to_string_lossy(), o]))})
        }
        Error::Preprocess(x) => {
            json!({"variant":"Preprocess","loc": x.as_ref().map(|(p,o)| json!([p.to_string_lossy(), o]))})
        }
        Error::DefineArgNotFound(s) => json!({"variant":"DefineArgNotFound","name":s}),
        Error::DefineNotFound(s) => json!({"variant":"DefineNotFound","name":s}),
        Error::DefineNoArgs(s) => json!({"variant":"DefineNoArgs","name":s}),
        Error::ExceedRecursiveLimit => json!({"variant":"ExceedRecursiveLimit"}),
        Error::IncludeLine => json!({"variant":"IncludeLine"}),
    }
}

fn defines_from(v: &Value) -> Defines {
    let mut d: Defines = HashMap::new();
    if let Some(m) = v.as_object() {
        for (k, val) in m {
            if val.is_null() {
                d.insert(k.clone(), None);
            } else {
                let args = val["args"]
                    .as_array()
                    .map(|a| {
                        a.iter()
                            .map(|x| {
                                (
                                    x[0].as_str().unwrap().to_string(),
                                    x[1].as_str().map(|s| s.to_string()),
                                )
                            })
                            .collect()
                    })
                    .unwrap_or_else(Vec::new);
                let text = if val["text"].is_null() {
                    None
                } else {
                    let origin = if val["origin"].is_array() {
                        let o = &val["origin"];
                        Some((
                            PathBuf::from(o[0].as_str().unwrap()),
                            Range::new(o[1].as_u64().unwrap() as usize, o[2].as_u64().unwrap() as usize),
                        ))
                    } else {
                        None
                    };
                    Some(DefineText::new(val["text"].as_str().unwrap().to_string(), origin))
                };
                let ident = val["identifier"].as_str().unwrap_or(k).to_string();
                d.insert(k.clone(), Some(Define::new(ident, args, text)));
            }
        }
    }
    d
}

fn defines_json(d: &Defines) -> Value {
    let mut keys: Vec<&String> = d.keys().collect();
    keys.sort();
    let mut m = Map::new();
    for k in keys {
        let v = match &d[k] {
            None => Value::Null,
            Some(def) => {
                let args: Vec<Value> = def.arguments.iter().map(|(a, b)| json!([a, b])).collect();
                let (text, origin) = match &def.text {
                    None => (Value::Null, Value::Null),
                    Some(t) => (
                        json!(t.text),
                        match &t.origin {
                            None => Value::Null,
                            Some((p, r)) => json!([p.to_string_lossy(), r.begin, r.end]),
                        },
                    ),
                };
                json!({"identifier": def.identifier, "args": args, "text": text, "origin": origin})
            }
        };
        m.insert(k.clone(), v);
    }
    Value::Object(m)
}

fn text_json(t: &PreprocessedText) -> Value {
    let s = t.text();
    let mut origins = Vec::new();
    for i in 0..s.len() {
        match t.origin(i) {
            None => origins.push(Value::Null),
            Some((p, o)) => origins.push(json!([p.to_string_lossy(), o])),
        }
    }
    json!({"text": s, "origins": origins})
}

fn strs(v: &Value) -> Vec<String> {
    v.as_array()
        .map(|a| a.iter().map(|x| x.as_str().unwrap().to_string()).collect())
        .unwrap_or_else(Vec::new)
}

fn do_preprocess(req: &Value) -> Value {
    if let Some(cwd) = req["cwd"].as_str() {
        std::env::set_current_dir(cwd).unwrap();
    }
    let defines = defines_from(&req["defines"]);
    let inc = strs(&req["include_paths"]);
    let strip = req["strip_comments"].as_bool().unwrap_or(false);
    let ign = req["ignore_include"].as_bool().unwrap_or(false);
    let path = req["path"].as_str().unwrap_or("");
    let r = if req["mode"].as_str() == Some("file") {
        sv_parser::preprocess(path, &defines, &inc, strip, ign)
    } else {
        let rd = req["resolve_depth"].as_u64().unwrap_or(0) as usize;
        let id = req["include_depth"].as_u64().unwrap_or(0) as usize;
        sv_parser::preprocess_str(req["text"].as_str().unwrap(), path, &defines, &inc, ign, strip, rd, id)
    };
    match r {
        Ok((t, d)) => {
            let mut v = text_json(&t);
            v["ok"] = json!(true);
            v["defines"] = defines_json(&d);
            v
        }
        Err(e) => json!({"ok": false, "error": err_json(&e)}),
    }
}

fn tree_json(tree: &SyntaxTree, want: &Value) -> Value {
    let wants = strs(want);
    let w = |k: &str| wants.iter().any(|x| x == k);
    let mut out = Map::new();
    if w("leaves") {
        let mut leaves = Vec::new();
        for n in tree {
            if let RefNode::Locate(x) = n {
                leaves.push(json!([x.offset, x.line, x.len]));
            }
        }
        out.insert("leaves".into(), Value::Array(leaves));
    }
    if w("kinds") {
        // plain iteration: node kind names (Locate with offsets)
        let mut v = Vec::new();
        for n in tree {
            match n {
                RefNode::Locate(x) => v.push(json!(format!("Locate@{}+{}", x.offset, x.len))),
                x => v.push(json!(format!("{}", x))),
            }
        }
        out.insert("kinds".into(), Value::Array(v));
    }
    if w("events") {
        let mut v = Vec::new();
        for n in tree.into_iter().event() {
            match n {
                NodeEvent::Enter(RefNode::Locate(x)) => v.push(json!(format!("E Locate@{}+{}", x.offset, x.len))),
                NodeEvent::Leave(RefNode::Locate(x)) => v.push(json!(format!("L Locate@{}+{}", x.offset, x.len))),
                NodeEvent::Enter(x) => v.push(json!(format!("E {}", x))),
                NodeEvent::Leave(x) => v.push(json!(format!("L {}", x))),
            }
        }
        out.insert("events".into(), Value::Array(v));
    }
    if w("skeleton") {
        // whitespace-free skeleton: kinds of non-whitespace nodes + token texts
        let mut v = Vec::new();
        let mut skip = 0usize;
        for n in tree.into_iter().event() {
            match n {
                NodeEvent::Enter(RefNode::WhiteSpace(_)) => skip += 1,
                NodeEvent::Leave(RefNode::WhiteSpace(_)) => skip -= 1,
                NodeEvent::Enter(RefNode::Locate(x)) if skip == 0 => {
                    v.push(json!(format!("'{}'", tree.get_str(x).unwrap_or("<none>"))))
                }
                NodeEvent::Enter(x) if skip == 0 => v.push(json!(format!("{}", x))),
                _ => (),
            }
        }
        out.insert("skeleton".into(), Value::Array(v));
    }
    if w("origins") {
        let mut v = Vec::new();
        for n in tree {
            if let RefNode::Locate(x) = n {
                match tree.get_origin(x) {
                    None => v.push(Value::Null),
                    Some((p, o)) => v.push(json!([p.to_string_lossy(), o])),
                }
            }
        }
        out.insert("leaf_origins".into(), Value::Array(v));
    }
    if w("strs") {
        // get_str of every node in iteration order (kind, text) + get_str_trim
        let mut v = Vec::new();
        for n in tree {
            let kind = format!("{}", n);
            let a = tree.get_str(vec![n.clone()]).map(|s| s.to_string());
            let b = tree.get_str_trim(vec![n.clone()]).map(|s| s.to_string());
            v.push(json!([kind, a, b]));
        }
        out.insert("strs".into(), Value::Array(v));
    }
    if w("display") {
        out.insert("display".into(), json!(format!("{}", tree)));
    }
    if w("debug") {
        out.insert("debug".into(), json!(format!("{:?}", tree)));
    }
    Value::Object(out)
}

fn do_parse(req: &Value) -> Value {
    if let Some(cwd) = req["cwd"].as_str() {
        std::env::set_current_dir(cwd).unwrap();
    }
    let defines = defines_from(&req["defines"]);
    let inc = strs(&req["include_paths"]);
    let ign = req["ignore_include"].as_bool().unwrap_or(false);
    let incomplete = req["allow_incomplete"].as_bool().unwrap_or(false);
    let lib = req["lib"].as_bool().unwrap_or(false);
    let path = req["path"].as_str().unwrap_or("");
    let entry = req["entry"].as_str().unwrap_or("str");
    let r = match (entry, lib) {
        ("file", false) => sv_parser::parse_sv(path, &defines, &inc, ign, incomplete),
        ("file", true) => sv_parser::parse_lib(path, &defines, &inc, ign, incomplete),
        ("str", false) => {
            sv_parser::parse_sv_str(req["text"].as_str().unwrap(), path, &defines, &inc, ign, incomplete)
        }
        ("str", true) => {
            sv_parser::parse_lib_str(req["text"].as_str().unwrap(), path, &defines, &inc, ign, incomplete)
        }
        ("pp_file", _) | ("pp_str", _) => {
            let strip = req["strip_comments"].as_bool().unwrap_or(false);
            let p = if entry == "pp_file" {
                sv_parser::preprocess(path, &defines, &inc, strip, ign)
            } else {
                sv_parser::preprocess_str(req["text"].as_str().unwrap(), path, &defines, &inc, ign, strip, 0, 0)
            };
            match p {
                Err(e) => Err(e),
                Ok((t, d)) => {
                    if lib {
                        sv_parser::parse_lib_pp(t, d, incomplete)
                    } else {
                        sv_parser::parse_sv_pp(t, d, incomplete)
                    }
                }
            }
        }
        _ => panic!("bad entry"),
    };
    match r {
        Ok((tree, d)) => {
            let mut v = tree_json(&tree, &req["want"]);
            v["ok"] = json!(true);
            v["defines"] = defines_json(&d);
            v
        }
        Err(e) => json!({"ok": false, "error": err_json(&e)}),
    }
}

fn nom_err_json<T>(input: &str, r: &Result<T, nom::Err<nom_greedyerror::GreedyError<Span, nom::error::ErrorKind>>>) -> Value {
    match r {
        Ok(_) => json!({"ok": true}),
        Err(nom::Err::Incomplete(_)) => json!({"ok": false, "kind": "Incomplete", "pos": null}),
        Err(nom::Err::Error(e)) => {
            json!({"ok": false, "kind": "Error", "pos": nom_greedyerror::error_position(e), "len": input.len()})
        }
        Err(nom::Err::Failure(e)) => {
            json!({"ok": false, "kind": "Failure", "pos": nom_greedyerror::error_position(e), "len": input.len()})
        }
    }
}

// raw parser entry points on a concrete text (no preprocessing)
fn do_raw(req: &Value) -> Value {
    let text = req["text"].as_str().unwrap();
    let which = req["parser"].as_str().unwrap();
    let span = Span::new_extra(text, SpanInfo::default());
    let want_debug = req["debug"].as_bool().unwrap_or(true);
    macro_rules! run {
        ($p:expr) => {{
            let r = $p(span);
            let mut v = nom_err_json(text, &r);
            if let Ok((rest, x)) = &r {
                v["consumed"] = json!(text.len() - rest.fragment().len());
                if want_debug {
                    v["tree"] = json!(format!("{:?}", x));
                }
            }
            v["depths"] = {
                let (a, b) = sv_parser_parser::verif_hooks::scope_depths();
                json!([a, b])
            };
            v
        }};
    }
    match which {
        "pp" => run!(sv_parser_parser::pp_parser),
        "pp_all" => run!(nom::combinator::all_consuming(sv_parser_parser::pp_parser)),
        "sv" => run!(sv_parser_parser::sv_parser),
        "sv_incomplete" => run!(sv_parser_parser::sv_parser_incomplete),
        "lib" => run!(sv_parser_parser::lib_parser),
        "lib_incomplete" => run!(sv_parser_parser::lib_parser_incomplete),
        _ => panic!("bad parser"),
    }
}

fn do_lex(req: &Value) -> Value {
    use sv_parser_parser::verif_hooks as h;
    h::reinit();
    let versions = strs(&req["versions"]);
    let vrefs: Vec<&str> = versions.iter().map(|s| s.as_str()).collect();
    h::push_scopes(&vrefs, req["directives"].as_u64().unwrap_or(0) as usize);
    let before = h::scope_depths();
    let r = h::lex(
        req["name"].as_str().unwrap(),
        req["arg"].as_str().unwrap_or(""),
        req["input"].as_str().unwrap(),
    );
    let after = h::scope_depths();
    match r {
        Some((n, d)) => json!({"ok": true, "consumed": n, "debug": d, "before": [before.0, before.1], "after": [after.0, after.1]}),
        None => json!({"ok": false, "before": [before.0, before.1], "after": [after.0, after.1]}),
    }
}

fn do_pt_ops(req: &Value) -> Value {
    use sv_parser_pp::preprocess::verif_hooks as h;
    // ops: [{"op":"push","len":n,"origin":null|[pathid, begin, end]} | {"op":"merge","ops":[...]}]
    fn build(ops: &Value) -> PreprocessedText {
        let mut t = h::pt_new();
        for op in ops.as_array().unwrap() {
            match op["op"].as_str().unwrap() {
                "push" => {
                    let s = match op["text"].as_str() {
                        Some(t) => t.to_string(),
                        None => "x".repeat(op["len"].as_u64().unwrap() as usize),
                    };
                    let origin = if op["origin"].is_array() {
                        let o = &op["origin"];
                        Some((
                            PathBuf::from(format!("p{}", o[0].as_u64().unwrap())),
                            Range::new(o[1].as_u64().unwrap() as usize, o[2].as_u64().unwrap() as usize),
                        ))
                    } else {
                        None
                    };
                    h::pt_push(&mut t, &s, origin);
                }
                "merge" => {
                    let o = build(&op["ops"]);
                    h::pt_merge(&mut t, o);
                }
                _ => panic!("bad op"),
            }
        }
        t
    }
    let t = build(&req["ops"]);
    let mut v = Vec::new();
    for i in 0..t.text().len() + 2 {
        match t.origin(i) {
            None => v.push(Value::Null),
            Some((p, o)) => v.push(json!([p.to_string_lossy(), o])),
        }
    }
    json!({"ok": true, "len": t.text().len(), "origins": v})
}

fn do_split_text(req: &Value) -> Value {
    let v = sv_parser_pp::preprocess::verif_hooks::split_text(req["text"].as_str().unwrap());
    json!({"ok": true, "pieces": v})
}

fn handle(req: &Value) -> Value {
    match req["cmd"].as_str().unwrap_or("") {
        "preprocess" => do_preprocess(req),
        "parse" => do_parse(req),
        "raw" => do_raw(req),
        "lex" => do_lex(req),
        "pt_ops" => do_pt_ops(req),
        "split_text" => do_split_text(req),
        "ping" => json!({"ok": true}),
        x => json!({"ok": false, "bad_cmd": x}),
    }
}

fn handle_catch(req: &Value) -> Value {
    let r = std::panic::catch_unwind(|| handle(req));
    match r {
        Ok(v) => v,
        Err(e) => {
            let msg = if let Some(s) = e.downcast_ref::<&str>() {
                s.to_string()
            } else if let Some(s) = e.downcast_ref::<String>() {
                s.clone()
            } else {
                "panic".to_string()
            };
            json!({"ok": false, "panic": msg})
        }
    }
}

fn main() {
    let args: Vec<String> = std::env::args().collect();
    std::panic::set_hook(Box::new(|_| {}));
    if args.len() >= 3 && args[1] == "--once" {
        let s = std::fs::read_to_string(&args[2]).unwrap();
        let req: Value = serde_json::from_str(&s).unwrap();
        // run on a thread with the default main-thread-like stack (8 MiB) so that stack
        // exhaustion is observable as a process abort.
        let v = std::thread::Builder::new()
            .stack_size(8 << 20)
            .spawn(move || handle_catch(&req))
            .unwrap()
            .join()
            .unwrap();
        println!("{}", v);
        return;
    }
    let stdin = std::io::stdin();
    let stdout = std::io::stdout();
    for line in stdin.lock().lines() {
        let line = line.unwrap();
        if line.trim().is_empty() {
            continue;
        }
        let req: Value = match serde_json::from_str(&line) {
            Ok(v) => v,
            Err(e) => {
                println!("{}", json!({"ok": false, "bad_json": format!("{}", e)}));
                continue;
            }
        };
        let v = std::thread::Builder::new()
            .stack_size(64 << 20)
            .spawn(move || handle_catch(&req))
            .unwrap()
            .join()
            .unwrap_or_else(|_| json!({"ok": false, "panic": "thread"}));
        let mut o = stdout.lock();
        writeln!(o, "{}", v).unwrap();
        o.flush().unwrap();
    }
}
