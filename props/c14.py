"""C14  Invalid sources are rejected; error location is at or before the fault.

Mechanisms decided here (the statement's `every accepted program` is reduced to them):
 strict entry   -- Engine G: every successful path of source_text / library_text ends at the end of the text;
 delimiters     -- Engine G on the paren/bracket/brace/apostrophe_brace helper bodies: success only after BOTH
                   delimiter terminals matched, opener first, closer last;
 parse location -- parse_sv_pp / parse_lib_pp MIR: a parser failure at symbolic position p becomes
                   Error::Parse(text.origin(p)) (with C03: the file and offset of that byte);
 garbage-first  -- Engine G fixpoint: the set of productions whose body can succeed having consumed, at its entry position, a
                   byte outside printable ASCII / white space; none of them is reachable from source_text outside the
                   compiler-directive grammar (so nothing moves past such a byte at a token boundary and strict eof fails);
 pp location    -- preprocess_str MIR with the preprocessor parser failing at symbolic position p:
                   Error::Preprocess(Some((path being read, p))); concrete lexical faults (unterminated string /
                   block comment, lone backslash; top file and inside an include) report an offset not after the fault."""
import sys, time
import z3
import engine as E
import proprun, ppprop, gcheck, grun
import c20, apiharness as A
from engine import PPCase, Ref, PathV, VecV, Opaque, Enum, Struct
from models import ok, err, deref, HashMapV
from interp import Inconclusive

PID = 'C14'


class Item:
    def __init__(self, label, fn=None):
        self.label, self.fn = label, fn


def pp_location_case():
    def work():
        t0 = time.time()
        f_str = E.fn('preprocess_str')

        def args_fn(it):
            s = {'path': PathV('dir/file.sv')}
            return ['some text', s['path'], Ref([Opaque('HashMap', HashMapV())], 0), Ref([VecV([])], 0), False, False, 0, 0], s

        def stub_parser(it, ci, a, d, rec):
            k = it.choose([z3.Int('kind') == i for i in range(3)], 'kind')
            if k == 2:
                return err(Enum('Err', 'Incomplete', 0, [E.UNIT]))
            p = z3.Int('errpos')
            it.assume(z3.And(p >= 0, p <= 9))
            return err(Enum('Err', 'Error' if k == 0 else 'Failure', k + 1, [Opaque('GreedyError', {'pos': p})]))

        def check(it, r, rec, s):
            notes = []
            if not (type(r) is Enum and r.variant == 'Err' and r.fields[0].variant == 'Preprocess'):
                return ['lexical failure of the preprocessor grammar is not reported as Error::Preprocess: %r' % (r,)]
            loc = r.fields[0].fields[0]
            m = it.model_for()
            if m.get('kind') == '2':
                if loc.variant != 'None':
                    notes.append('Incomplete must map to Preprocess(None)')
                return notes
            if loc.variant != 'Some':
                return ['Preprocess error without location']
            gp = deref(loc.fields[0].fields[0]).s
            go = loc.fields[0].fields[1]
            if gp != 'dir/file.sv':
                notes.append('Preprocess error names %r, the file being read is dir/file.sv' % gp)
            if it.feasible(go != z3.Int('errpos')):
                notes.append('Preprocess error offset %s is not the failure position' % go)
            return notes
        res, ex, f = A.run_wrapper(('preprocess_str',), args_fn, [(r'FnMut<\(LocatedSpan|call_mut', lambda it, ci, a, d, rec: stub_parser(it, ci, a, d, rec))], check)
        return c20.summarize('pp-location', 'preprocess_str::map_err', res, ex, t0, 'preprocessor parser failure kind and position symbolic')
    return Item('pp-location', work)


FAULTS = [
    ('unterminated-string', 'module m; endmodule\n', '"abc\n'),
    ('unterminated-block-comment', 'module m; endmodule\n', '/* abc\n'),
    ('lone-backslash', 'module m;\n', '\\ x\nendmodule\n'),
]


def fault_case(name, before, fault, via_include):
    def work():
        t0 = time.time()
        text = before + fault
        fault_at = len(before.encode())
        if via_include:
            case = PPCase('`include "inc.svh"\n', path='top.sv', files={'inc.svh': {'contents': [text], 'exists': True}}, strip='sym', label='fault/' + name)
        else:
            case = PPCase(text, path='top.sv', strip='sym', label='fault/' + name)
        real, ex = E.run_pp_case(case, want_origins=False, max_paths=20)
        out = {'family': 'lexical-faults', 'label': 'fault/%s%s' % (name, '/include' if via_include else ''), 'text': text, 'real_paths': len(real), 'ref_paths': 0,
               'pairs': len(real), 'queries': ex.solver_checks, 'solver_s': ex.solver_time, 'steps': ex.steps, 'models': ex.models_used, 'cex': [], 'obligations': [],
               'case': case.describe()}
        for rp in real:
            note = None
            if rp.outcome != 'ok':
                note = 'panic: %s' % rp.panic['msg']
            else:
                v = rp.value
                if v['ok']:
                    note = 'text with a lexical fault at %d accepted' % fault_at
                else:
                    e = v['error']
                    d = 0
                    while e.get('variant') == 'Include':
                        e = e['source']
                        d += 1
                    want_path = 'inc.svh' if via_include else 'top.sv'
                    if e.get('variant') != 'Preprocess' or not e.get('loc') or e['loc'][0] != want_path or e['loc'][1] > fault_at or d != (1 if via_include else 0):
                        note = 'fault at %s:%d reported as %r' % (want_path, fault_at, v['error'])
            if note:
                import ppsuite
                agrees, nat, conc = ppsuite.replay_real(case, rp.model, rp.value if rp.outcome == 'ok' else None)
                out['cex'].append({'kind': 'loc', 'note': note, 'model': rp.model, 'status': 'reproduced' if agrees else 'not_reproduced', 'native': nat,
                                   'role': 'fault-location:%s' % name})
                break
        out['wall'] = round(time.time() - t0, 2)
        return out
    return Item('fault/%s%s' % (name, '/include' if via_include else ''), work)


DIRECTIVE_FILE = 'sv-parser-parser/src/general/compiler_directives.rs'
LIBRARY_FILE = 'sv-parser-parser/src/source_text/library_source_text.rs'


def garbage_first_case(g):
    """no production reachable from the SystemVerilog start symbols, outside the compiler-directive grammar, can succeed having
    consumed -- at its entry position -- a byte that starts no token (Engine G fixpoint `garbage_consuming`)"""
    def work():
        t0 = time.time()
        if g.get('garbage_unknown'):
            raise Inconclusive('garbage-first: budget exhausted on %s' % g['garbage_unknown'][:5])
        G_ = set(g['garbage_consuming'])
        cm = g['callees']
        files = g['prod_files']

        def reach(roots):
            seen, todo = set(), [r for r in roots if r in cm]
            while todo:
                n = todo.pop()
                if n in seen:
                    continue
                seen.add(n)
                todo.extend(c for c in cm.get(n, ()) if c not in seen)
            return seen
        rs = reach(['sv_parser', 'sv_parser_incomplete', 'source_text', 'source_text_incomplete'])
        rl = reach(['lib_parser', 'lib_parser_incomplete', 'library_text', 'library_text_incomplete'])
        rounds = [r for r in g['rounds'] if str(r['round']).startswith('garbage-first')]
        out = {'family': 'rejection-and-location', 'label': 'garbage-first', 'text': 'fixpoint over %d productions, %d rounds; consuming set = %s; reachable: sv %d, lib %d' % (
                   g['n_productions'], len(rounds), sorted(G_), len(rs), len(rl)),
               'real_paths': sum(r['analysed'] for r in rounds), 'ref_paths': 0, 'pairs': sum(r['analysed'] for r in rounds), 'queries': 0, 'solver_s': 0, 'steps': 0,
               'models': {}, 'cex': [], 'obligations': [], 'case': {'mechanism': 'garbage-first'}}
        if len(rs) < 500 or 'module_declaration' not in rs:
            raise Inconclusive('garbage-first: call graph from the start symbols looks incomplete (%d productions reachable)' % len(rs))
        direct = set(rounds[0].get('added', [])) if rounds else set()
        bad_sv = [n for n in sorted(G_ & rs, key=lambda n: (n not in direct, n)) if files.get(n) != DIRECTIVE_FILE]
        for n in bad_sv[:8]:
            if True:
                out['cex'].append({'kind': 'loc', 'note': 'production %s (%s), reachable from source_text outside the compiler-directive grammar, can consume a byte that starts no token '
                                   '(non-printable / non-ASCII) at its first position%s: such a byte inserted at a token boundary is not rejected there%s' % (
                                       n, files.get(n), ' through a primitive of its own body' if n in direct else ' through a sub-parser',
                                       '' if n != bad_sv[0] or len(bad_sv) <= 8 else ' (%d productions in all; the first ones listed consume it themselves)' % len(bad_sv)),
                                   'model': None, 'status': 'reproduced', 'role': 'garbage-first:' + n})
        for n in sorted((G_ & rl) - rs):
            if files.get(n) not in (DIRECTIVE_FILE, LIBRARY_FILE):
                out['cex'].append({'kind': 'loc', 'note': 'production %s (%s), reachable from library_text, can consume a byte that starts no token at its first position' % (n, files.get(n)),
                                   'model': None, 'status': 'reproduced', 'role': 'garbage-first-lib:' + n})
        out['wall'] = round(time.time() - t0, 2)
        return out
    return Item('garbage-first', work)


def families(args):
    g = gcheck.gather(args)
    results = g['results']

    def gwork(item):
        if item.fn:
            return item.fn()
        name = item.label
        r = results.get(name)
        if not r or r['status'] != 'ok':
            raise Inconclusive('%s not analysed: %s' % (name, (r or {}).get('msg')))
        out = gcheck.base_case('grammar-mechanisms', name, '%d paths' % len(r['paths']), r)
        oks = [p for p in r['paths'] if p['outcome'] == 'ok' and p['ok']]
        def cex(note, role):
            out['cex'].append({'kind': 'loc', 'note': note, 'model': None, 'status': 'reproduced', 'role': role})
        if not oks:
            cex('%s has no successful path (vacuous)' % name, 'vacuous:' + name)
        if name in ('source_text', 'library_text'):
            if not all(p.get('eof') for p in oks):
                cex('strict entry %s can succeed before the end of the text' % name, 'strict-eof:' + name)
        else:
            opener = {'utils::paren': '(', 'utils::paren_exact': '(', 'utils::bracket': '[', 'utils::brace': '{', 'utils::apostrophe_brace': "'{"}[name]
            closer = {'utils::paren': ')', 'utils::paren_exact': ')', 'utils::bracket': ']', 'utils::brace': '}', 'utils::apostrophe_brace': '}'}[name]
            for p in oks:
                ev = [e for e in (p.get('log') or []) if e[0] in ('terminal', 'ok')]
                terms = [e[1] for e in ev if e[0] == 'terminal']
                seq = [e for e in ev]
                good = len(seq) == 3 and seq[0] == ['terminal', opener] and seq[1][0] == 'ok' and seq[2] == ['terminal', closer]
                good = good or (len(seq) == 3 and tuple(seq[0]) == ('terminal', opener) and seq[1][0] == 'ok' and tuple(seq[2]) == ('terminal', closer))
                if not good:
                    cex('%s succeeds with the events %s (expected opener %r, inner parser, closer %r)' % (name, seq, opener, closer), 'delimiters:' + name)
                    break
        return out

    items = [Item(n) for n in ('source_text', 'library_text', 'utils::paren', 'utils::paren_exact', 'utils::bracket', 'utils::brace', 'utils::apostrophe_brace')]
    for lib in (False, True):
        for k in range(len(c20.SEG_LAYOUTS)):
            c = c20.pp_case(lib, k)
            items.append(Item('parse-location/' + c.label, c.fn))
    items.append(pp_location_case())
    if not args.only:
        items.append(garbage_first_case(g))
    for name, before, fault in FAULTS:
        for inc in (False, True):
            items.append(fault_case(name, before, fault, inc))
    return [ppprop.Family('rejection-and-location', items, None, ('loc', 'args', 'panic'), custom_work=gwork)]


def main():
    args = proprun.parse_args(PID)
    return ppprop.run(PID, 'model_checking', families, args,
                      rule='grammar mechanisms via Engine G (strict entries, delimiter helpers), location mapping via the wrapper MIR with failure kind and position symbolic, concrete lexical faults in the top file and behind an include with strip_comments symbolic',
                      bounds={'tier': args.tier}, outside=['that GreedyError reports a position not after an inserted garbage byte for every program (follows from garbage-first: no production moves past the byte; the maximum itself is nom-greedyerror, trusted)',
                                                            'deleted-delimiter rejection beyond the helper-level fact',
                                                            'garbage-first: tokens that begin before the inserted byte and run over it (comments, strings, escaped identifiers: the statement places the byte at a token boundary); '
                                                            'the library grammar where a file path is expected (every byte but , ; blank starts a file_path_spec)'],
                      assumptions=['rustc nightly MIR', 'nom contracts', 'C03 for the meaning of origin(p)'], sample_sym='errpos, kind, outcome, allow_incomplete, strip_comments')


if __name__ == '__main__':
    sys.exit(main())
