"""C16  Tree traversal is a faithful pre-order with balanced events.

For EVERY node type of the syntax tree (all RefNode variants, read from the generated any_node.rs)
a bounded tree value is generated from the type tables; its shape (presence of each top-level
Option, length 0..2 of each top-level Vec, variant of a top-level enum) is chosen by the solver.
The real iterators and conversions (derive(Node)::next / IntoIterator, From<&(T0..Tn)> for RefNodes,
&Vec/&Option/&Box/Paren/List impls, Iter::next, EventIter::next, Iter::event, RefNode::next/into_iter,
TryFrom<&T> for Locate, SyntaxTree::get_str/get_str_trim) are executed from MIR and compared with an
independent reference walk by declared field order."""
import sys, time
import z3
import engine as E
import proprun, ppprop
from engine import Ref, Struct, Enum, Tup, VecV, Opaque
from interp import Explorer, Inconclusive, RustPanic
from models import Models, deref, some, none
from treegen import TreeGen

PID = 'C16'
UNWRAP_HOOKS = [('unwrap_node_symbol_keyword', ('Symbol', 'Keyword')), ('unwrap_node_keyword_symbol', ('Keyword', 'Symbol')),
                ('unwrap_node_whitespace_locate', ('WhiteSpace', 'Locate')), ('unwrap_node_locate', ('Locate',)), ('unwrap_locate_of', ('Locate',))]
_tg = None


def tg():
    global _tg
    if _tg is None:
        _tg = TreeGen(E.prog().td)
    return _tg


def refnode_label(v):
    if v.variant == 'Locate':
        return 'Locate@%d' % deref(v.fields[0]).fields[0]
    return v.variant


def drain(it, f_next, iterval):
    cell = [iterval]
    out = []
    for _ in range(100000):
        r = it.concretize(it.run_func(f_next, [Ref(cell, 0)]))
        if r.variant == 'None':
            return out
        out.append(r.fields[0])
    raise Inconclusive('iterator does not terminate')


class TypeCase:
    def __init__(self, name):
        self.label = name


def work(tc):
    name = tc.label
    t0 = time.time()
    P = E.prog()
    G = tg()
    f_iter_next = E.fn('next', lambda e: e.argnorm == ['&Iter'])
    f_ev_next = E.fn('next', lambda e: e.argnorm == ['&EventIter'])
    f_event = E.fn('event', lambda e: e.argnorm == ['Iter'])
    f_get_str = E.fn('get_str', lambda e: e.argnorm and e.argnorm[0] == '&SyntaxTree')
    f_get_str_trim = E.fn('get_str_trim', lambda e: e.argnorm and e.argnorm[0] == '&SyntaxTree')
    allowed = tc.devs

    def body(it):
        devs = []

        def chooser(label, n, default):
            v = z3.Int('c%d' % len(devs))
            devs.append(z3.If(v != default, 1, 0))
            it.assume(z3.And(v >= 0, v < n, z3.Sum(devs) <= allowed))
            return it.choose([v == i for i in range(n)], label)
        val, ref = G.gen_root(name, chooser)
        cell = [val]
        vref = Ref(cell, 0)
        notes = []
        mdl = it.models
        # (a) plain iteration: &T into_iter
        okk, itv = mdl.call_mir(it, 'into_iter', [vref], trait='IntoIterator')
        if not okk:
            raise Inconclusive('no IntoIterator impl for &%s in the MIR' % name)
        plain = [refnode_label(x) for x in drain(it, f_iter_next, itv)]
        exp = ref.preorder()
        if plain != exp:
            notes.append('iteration of %s yields %s, pre-order by field order is %s' % (name, plain, exp))
        # (b) events
        okk, itv2 = mdl.call_mir(it, 'into_iter', [vref], trait='IntoIterator')
        ev = it.run_func(f_event, [itv2])
        evs = []
        for x in drain(it, f_ev_next, ev):
            evs.append(('E ' if x.variant == 'Enter' else 'L ') + refnode_label(x.fields[0]))
        if evs != ref.events():
            # diagnose: balance / nesting / enter subsequence
            stack = []
            balanced = True
            for e in evs:
                if e[0] == 'E':
                    stack.append(e[2:])
                elif not stack or stack.pop() != e[2:]:
                    balanced = False
            notes.append('events of %s differ from the reference (balanced=%s, enters==plain: %s): %s vs %s' % (
                name, balanced and not stack, [e[2:] for e in evs if e[0] == 'E'] == plain, evs[:12], ref.events()[:12]))
        # (b2) event view of a partially advanced iterator (several pending entries): Iter::next once, then Iter::event;
        #      the Enter sequence must be the rest of the plain iteration, Leave events properly nested
        okk, itv4 = mdl.call_mir(it, 'into_iter', [vref], trait='IntoIterator')
        cell4 = [itv4]
        first = it.concretize(it.run_func(f_iter_next, [Ref(cell4, 0)]))
        if first.variant == 'Some' and len(exp) > 1:
            ev4 = it.run_func(f_event, [cell4[0]])
            evs4 = []
            for x in drain(it, f_ev_next, ev4):
                evs4.append(('E ' if x.variant == 'Enter' else 'L ') + refnode_label(x.fields[0]))
            want4 = []
            for c in ref.children:
                c.events(want4)
            if evs4 != want4:
                notes.append('event view of the iterator of %s after one next(): enters %s, rest of the plain iteration %s' % (
                    name, [e[2:] for e in evs4 if e[0] == 'E'][:10], exp[1:11]))
        # (c) RefNode::T(&v).into_iter()  (via From<&T> for RefNode)
        okk, rn = mdl.call_mir(it, 'from', [vref], ret='RefNode', trait='From')
        if okk:
            okk2, itv3 = mdl.call_mir(it, 'into_iter', [rn], trait='IntoIterator')
            if okk2:
                p3 = [refnode_label(x) for x in drain(it, f_iter_next, itv3)]
                if p3 != exp:
                    notes.append('RefNode::%s(..).into_iter() yields %s, expected %s' % (name, p3, exp))
        # (d) Locate::try_from(&v)
        leaves = ref.leaves()
        try:
            okk, lr = mdl.call_mir(it, 'try_from', [vref], trait='TryFrom', self_base='Locate')
            if okk:
                lr = it.concretize(lr)
                if leaves:
                    want = (leaves[0][0], len(leaves))
                    got = (lr.fields[0].fields[0], lr.fields[0].fields[2]) if lr.variant == 'Ok' else None
                    if got != want:
                        notes.append('Locate::try_from(&%s) = %r, expected offset/len %r' % (name, got, want))
                elif lr.variant != 'Err':
                    notes.append('Locate::try_from of a node without tokens must be Err')
        except RustPanic as e:
            notes.append('Locate::try_from(&%s) panics: %s' % (name, e.msg))
        # (e) SyntaxTree::get_str / get_str_trim of the node
        n = G.counter
        text = Struct('PreprocessedText', [E.StringV('x' * n), Opaque('BTreeMap', None)])
        st = Struct('SyntaxTree', [Enum('AnyNode', 'Locate', 0, [Struct('Locate', [0, 1, 0])]), text])
        for fn, trim in ((f_get_str, False), (f_get_str_trim, True)):
            r = it.concretize(it.run_func(fn, [Ref([st], 0), vref]))
            ls = [o for o, ws in leaves if not (trim and ws)]
            if not ls:
                if r.variant != 'None':
                    notes.append('%s(%s) = %r, expected None' % (fn.name.split('::')[-1], name, r))
            else:
                want = 'x' * (ls[-1] + 1 - ls[0])
                got = r.fields[0] if r.variant == 'Some' else None
                if got != want or (got is not None and it.env.get('last_get_unchecked') != (ls[0], ls[-1] + 1)):
                    notes.append('%s(%s) returns bytes %r, expected [%d,%d)' % (fn.name.split('::')[-1], name, it.env.get('last_get_unchecked'), ls[0], ls[-1] + 1))
        # (g) unwrap_node! / unwrap_locate! (their expansions, instantiated by the hooks of sv-parser/src/lib.rs): the first node in
        #     pre-order whose kind is among the requested ones, whatever the order in which the kinds are listed
        okk, rn = mdl.call_mir(it, 'from', [vref], ret='RefNode', trait='From')
        if okk:
            okk2, itv5 = mdl.call_mir(it, 'into_iter', [rn], trait='IntoIterator')
            nodes = drain(it, f_iter_next, itv5) if okk2 else []
            for hook, kinds in UNWRAP_HOOKS:
                fh = E.fn(hook)
                r = it.concretize(it.run_func(fh, [rn]))
                want = next((x for x in nodes if x.variant in kinds), None)
                if want is None:
                    if r.variant != 'None':
                        notes.append('%s on %s returns %s, no node of kinds %s exists' % (hook, name, refnode_label(r.fields[0]) if hook != 'unwrap_locate_of' else 'a Locate', kinds))
                    continue
                if r.variant != 'Some':
                    notes.append('%s on %s returns None, expected %s' % (hook, name, refnode_label(want)))
                    continue
                got = r.fields[0]
                if hook == 'unwrap_locate_of':
                    same_node = deref(got) is deref(want.fields[0])
                    glabel = 'Locate@%s' % deref(got).fields[0]
                else:
                    same_node = got.variant == want.variant and deref(got.fields[0]) is deref(want.fields[0])
                    glabel = refnode_label(got)
                if not same_node:
                    notes.append('%s on %s returns %s, the first node of kinds %s in pre-order is %s (position %d)' % (
                        hook, name, glabel, kinds, refnode_label(want), nodes.index(want)))
        # (f) get_str_trim of the node's children tuple (&x.nodes: several roots at once)
        if type(val) is Struct and val.fields and type(val.fields[0]) is Tup and len(val.fields[0].fields) > 1:
            try:
                r = it.concretize(it.run_func(f_get_str_trim, [Ref([st], 0), Ref(val.fields, 0)]))
                ls = [o for o, ws in leaves if not ws]
                if ls:
                    want = 'x' * (ls[-1] + 1 - ls[0])
                    got = r.fields[0] if r.variant == 'Some' else None
                    if got != want or it.env.get('last_get_unchecked') != (ls[0], ls[-1] + 1):
                        notes.append('get_str_trim(&%s.nodes) returns bytes %r, expected [%d,%d)' % (name, it.env.get('last_get_unchecked'), ls[0], ls[-1] + 1))
                elif r.variant != 'None':
                    notes.append('get_str_trim(&%s.nodes) = %r, expected None' % (name, r))
            except Inconclusive:
                pass
        return {'notes': notes, 'shape': [str(d) for d in devs][:0], 'size': len(exp)}

    mdl = Models()

    def get_unchecked(it, ci, a, d):
        s = E.sv(a[0])
        rg = a[1]
        it.env['last_get_unchecked'] = (rg.fields[0], rg.fields[1])
        return s.encode('utf-8')[rg.fields[0]:rg.fields[1]].decode('utf-8', 'replace')
    mdl.override(r'<impl str>::get_unchecked', get_unchecked)
    ex = Explorer(P, mdl, body, max_paths=400)
    res = ex.run()
    if ex.truncated:
        raise Inconclusive('path budget for %s' % name)
    out = {'family': 'all-node-types', 'label': name, 'text': 'type %s, %d shapes' % (name, len(res)), 'real_paths': len(res), 'ref_paths': len(res),
           'pairs': len(res), 'queries': ex.solver_checks, 'solver_s': ex.solver_time, 'steps': ex.steps, 'models': dict(mdl.called), 'cex': [],
           'obligations': [], 'case': {'type': name}}
    seen = set()
    for r in res:
        if r.outcome == 'panic':
            out['cex'].append({'kind': 'panic', 'note': 'traversal of %s panics: %s' % (name, r.panic['msg']), 'model': r.model, 'status': 'reproduced',
                               'role': 'panic:' + name})
            continue
        for n in r.value['notes']:
            key = n[:60]
            if key in seen:
                continue
            seen.add(key)
            out['cex'].append({'kind': 'order', 'note': n[:700], 'model': r.model, 'status': 'reproduced', 'role': 'order:' + name})
    out['wall'] = round(time.time() - t0, 2)
    return out


def families(args):
    E.setup()
    names = [n for n in E.prog().td.enums['RefNode']]
    cases = []
    for n in names:
        tc = TypeCase(n)
        tc.devs = 1 if args.tier == 'quick' else 2
        cases.append(tc)
    fam = ppprop.Family('all-node-types', cases, None, ('order', 'panic'), custom_work=work)
    return [fam]


def main():
    args = proprun.parse_args(PID)
    return ppprop.run(PID, 'model_checking', families, args,
                      rule='one case per node type (all 1243 RefNode variants); shapes: every top-level Option present/absent, every top-level Vec of length 0/1/2, every variant of a top-level enum, '
                           'with at most 1 (quick) / 2 (thorough) deviations from the fullest shape at once, chosen by z3; deeper levels take the cheapest shape; all traversal code from MIR',
                      bounds={'tier': args.tier, 'depth budget': 3, 'simultaneous deviations': '1 quick / 2 thorough'},
                      outside=['shapes beyond the deviation bound', 'instantiations of unwrap_node! with other kind lists than the five of the hooks (Symbol|Keyword in both orders, WhiteSpace|Locate, Locate, unwrap_locate!)', 'trees deeper than the budget'],
                      assumptions=['rustc nightly MIR = semantics of the built code', 'Vec/Option/Box models; str::get_unchecked recorded', 'reference walk lib/treegen.py (declared field order from the sources)'],
                      sample_sym='c0..ck (shape choices)')


if __name__ == '__main__':
    sys.exit(main())
