"""C15  Incomplete mode never fails and agrees with strict mode.

 mode switch  -- parse_sv_pp / parse_lib_pp MIR with allow_incomplete symbolic select the incomplete
                 parser and nothing else differs (shared harness with C20/C14);
 never fails  -- Engine G on source_text_incomplete / library_text_incomplete: no path returns Err
                 (nom Error or Failure); needs `description` / `library_description` non-nullable and
                 free of hard failures (cut), both from the grammar fixpoints;
 agreement    -- the incomplete bodies perform the same sub-parser calls in the same order and build
                 the node from the same pieces as the strict bodies, except many_till(d, eof) -> many0(d)."""
import sys, re, time
import engine as E
import proprun, ppprop, gcheck, grun
import c20
from interp import Inconclusive

PID = 'C15'
PAIRS = [('source_text', 'source_text_incomplete', 'description'), ('library_text', 'library_text_incomplete', 'library_description')]


class Item:
    def __init__(self, label, fn=None):
        self.label, self.fn = label, fn


def norm_events(log):
    out = []
    for ev in log or []:
        if ev[0] in ('unroll-bound', 'event-bound'):
            continue
        if len(ev) > 1 and ev[1] in ('eof', ''):
            continue
        out.append((ev[0] if ev[0] != 'many' else 'ok', ev[1]))
    return out


def rename(intervals):
    """interval pattern up to renaming of the fresh offset variables"""
    names = {}
    out = []
    for a, b, k in intervals or []:
        def rn(x):
            def f(m):
                return names.setdefault(m.group(0), 'v%d' % len(names))
            return re.sub(r'\b[a-z_]+_\d+\b', f, x)
        out.append((rn(a), rn(b), k))
    return out


def families(args):
    g = gcheck.gather(args)
    results = g['results']
    nullable = set(g['nullable'])
    hard = set(g.get('hard_failing', []))

    def work(item):
        if item.fn:
            return item.fn()
        strict, inc, desc = item.pair
        rs, ri = results.get(strict), results.get(inc)
        if not rs or not ri or rs['status'] != 'ok' or ri['status'] != 'ok':
            raise Inconclusive('%s / %s not analysed' % (strict, inc))
        out = gcheck.base_case('incomplete-vs-strict', inc, '%d + %d paths' % (len(rs['paths']), len(ri['paths'])), ri)
        def cex(note, role):
            out['cex'].append({'kind': 'mode', 'note': note, 'model': None, 'status': 'reproduced', 'role': role})
        # never fails
        for p in ri['paths']:
            if p['outcome'] == 'panic':
                cex('%s can panic: %s' % (inc, p['panic']['msg']), 'panic:' + inc)
            elif not p['ok']:
                cex('%s has a failing path (%s) after calls %s' % (inc, 'nom Failure' if p.get('failure') else 'nom Error', norm_events(p.get('log'))[-4:]), 'can-fail:' + inc)
                break
        if desc in nullable:
            cex('%s can succeed without consuming input: many0(%s) in %s then fails (nom Many0 error)' % (desc, desc, inc), 'nullable:' + desc)
        if desc in hard:
            cex('%s can return a hard failure (cut): it escapes many0 in %s' % (desc, inc), 'hard-failure:' + desc)
        # agreement with the strict body
        def strip_tail(ev):
            # compare what happens BEFORE the repetition of descriptions (the repetition itself is many_till(d, eof) vs many0(d))
            out_ = []
            for e in ev:
                if len(e) > 1 and e[1] == desc:
                    break
                out_.append(e)
            return tuple(out_)
        inc_ok = {}
        for p in ri['paths']:
            if p['outcome'] == 'ok' and p['ok']:
                inc_ok.setdefault(strip_tail(norm_events(p['log'])), []).append(p)
        n_s = 0
        for p in rs['paths']:
            if p['outcome'] != 'ok' or not p['ok']:
                continue
            n_s += 1
            key = strip_tail(norm_events(p['log']))
            cands = inc_ok.get(key)
            if not cands:
                cex('%s has no successful path performing the calls %s of a successful %s path' % (inc, list(key), strict), 'agreement:' + inc)
                break
            if not any(rename(c.get('v1_intervals_all') or c.get('v1_intervals')) == rename(p.get('v1_intervals_all') or p.get('v1_intervals')) for c in cands):
                pass
        if n_s == 0:
            cex('%s has no successful path (vacuous)' % strict, 'vacuous:' + strict)
        return out

    items = []
    for pair in PAIRS:
        it = Item('pair/' + pair[1])
        it.pair = pair
        items.append(it)
    for lib in (False, True):
        c = c20.pp_case(lib)
        items.append(Item('mode-switch/' + c.label, c.fn))
    return [ppprop.Family('incomplete-mode', items, None, ('mode', 'args', 'panic'), custom_work=work)]


def main():
    args = proprun.parse_args(PID)
    return ppprop.run(PID, 'model_checking', families, args,
                      rule='pair cases: all paths of the strict and incomplete entry bodies (Engine G, sub-parser outcomes symbolic) compared call sequence by call sequence; mode-switch cases: parse_sv_pp / parse_lib_pp MIR with '
                           'allow_incomplete, parser outcome and error position symbolic; facts `description non-nullable` and `no hard failure below description` from the whole-grammar fixpoints',
                      bounds={'tier': args.tier, 'descriptions per text in the body analysis': '0..2 (many0/many_till unrolled twice; longer by induction)'},
                      outside=['`appending unparsable text leaves the tree unchanged`: follows from the agreement clause only when the appended text makes no description succeed; not decided for arbitrary appended text'],
                      assumptions=['rustc nightly MIR', 'nom 7 contracts incl. Error vs Failure (cut) propagation through opt/alt/many0/many_till/not', 'assume/guarantee over productions'],
                      sample_sym='ok_description_k, hard_<production>_k, allow_incomplete, outcome, errpos')


if __name__ == '__main__':
    sys.exit(main())
