"""C20  File, string and two-step entry points agree.

Every wrapper's real MIR is executed with its callees replaced by recording stubs and all flags
symbolic; obligations are stated by PARAMETER NAME of the callee (read from the MIR debug info).
By composition: parse_X(path) = preprocess(path, strip=false) ; parse_X_pp  and
parse_X_str(s) = preprocess_str(s, strip=false, 0, 0) ; parse_X_pp  and  preprocess(path) =
preprocess_str(read(path), same flags, 0, 0)."""
import sys, time, json
import z3
import engine as E
import proprun, ppprop, apiharness as A
from engine import Ref, PathV, VecV, Struct, Tup, Opaque, Enum, StringV
from models import some, none, ok, err, deref, sv, HashMapV
import models_pp
from interp import Inconclusive

PID = 'C20'

CONTENTS = ['module m;\nendmodule\n', '', '﻿module b; endmodule\n', 'a\r\nb\r\n', 'x  \n\n', '// café\nwire w;', ' ', '\n']


class Case:
    def __init__(self, label, fn):
        self.label, self.fn = label, fn


def result_summary(r):
    if type(r) is Enum and r.ty == 'Result':
        return r.variant
    return str(type(r))


def same_result(a, b):
    """structural equality of two Result values built from tokens / paths / ints"""
    if a is b:
        return True
    if type(a) is not type(b):
        return False
    if type(a) is Enum:
        return a.ty == b.ty and a.variant == b.variant and len(a.fields) == len(b.fields) and all(same_result(x, y) for x, y in zip(a.fields, b.fields))
    if type(a) is Tup:
        return len(a.fields) == len(b.fields) and all(same_result(x, y) for x, y in zip(a.fields, b.fields))
    if type(a) is Opaque:
        return a.kind == b.kind and a.data == b.data
    if type(a) is PathV:
        return a.s == b.s
    return a == b


def wrapper_case(which, lib, via_str):
    """parse_sv / parse_lib / parse_sv_str / parse_lib_str"""
    name = 'parse_%s%s' % ('lib' if lib else 'sv', '_str' if via_str else '')
    ppname = 'parse_%s_pp' % ('lib' if lib else 'sv')
    inner = 'preprocess_str' if via_str else 'preprocess'

    def work():
        t0 = time.time()
        f_inner = E.fn(inner, (lambda e: len(e.argnorm) == 8) if via_str else (lambda e: len(e.argnorm) == 5))
        pnames = A.param_names(f_inner)
        pp_names = A.param_names(E.fn(ppname))
        notes_all = []

        def args_fn(it):
            defs = Ref([Opaque('HashMap', HashMapV())], 0)
            incs = Ref([VecV([PathV('inc1')])], 0)
            ign = z3.Bool('ignore_include')
            inc = z3.Bool('allow_incomplete')
            path = PathV('dir/p.sv')
            syms = {'defs': defs, 'incs': incs, 'ign': ign, 'inc': inc, 'path': path, 'text': 'TEXT-OF-CALLER'}
            if via_str:
                return ['TEXT-OF-CALLER', path, defs, incs, ign, inc], syms
            return [path, defs, incs, ign, inc], syms

        def stub_inner(it, ci, a, d, rec):
            rec.calls.append((inner, list(a)))
            pt = Opaque('PT', 'pt-token')
            d2 = Opaque('DEFS', 'defs-token')
            if it.decide(z3.Bool('pp_ok'), 'pp_ok'):
                return ok(Tup([pt, d2]))
            return err(Opaque('ERR', 'pp-error'))

        def stub_pp(it, ci, a, d, rec):
            # result of parse_X_pp: Ok(tree) | Err(Parse(None)) | Err(Parse(Some(origin))) -- a wrapper that looks into it (or
            # rewrites it) meets real Result / Error values; it must hand back exactly what it got
            rec.calls.append((ppname, list(a)))
            td = it.prog.td
            k = it.choose([z3.Int('pp_result') == i for i in range(3)], 'pp_result')
            if k == 0:
                r = ok(Tup([Opaque('TREE', 'tree-token'), Opaque('DEFS', 'defs-token')]))
            elif k == 1:
                r = err(Enum('Error', 'Parse', td.variant_index('Error', 'Parse'), [none()]))
            else:
                r = err(Enum('Error', 'Parse', td.variant_index('Error', 'Parse'), [some(Tup([PathV('orig.sv'), 7]))]))
            rec.pp_result = r
            return r

        def stub_other(it, ci, a, d, rec):
            # a wrapper that goes through another route than the one documented (e.g. reads the file itself and calls the
            # string entry): recorded, answered like the expected callee, reported by check()
            rec.calls.append((ci.name, list(a)))
            if ci.name.startswith('preprocess'):
                if it.decide(z3.Bool('pp_ok'), 'pp_ok'):
                    return ok(Tup([Opaque('PT', 'pt-token'), Opaque('DEFS', 'defs-token')]))
                return err(Opaque('ERR', 'pp-error'))
            return stub_pp(it, ci, a, d, rec)

        def check(it, r, rec, s):
            notes = []
            calls = [c for c in rec.calls if c[0] == inner]
            if len(calls) != 1:
                return ['%s calls %s %d times' % (name, inner, len(calls))]
            got = dict(zip(pnames, calls[0][1]))
            exp = {'path': s['path'], 'pre_defines': s['defs'], 'include_paths': s['incs'], 'strip_comments': False, 'ignore_include': s['ign']}
            if via_str:
                exp.update({'s': s['text'], 'resolve_depth': 0, 'include_depth': 0})
            for k, v in exp.items():
                if k not in got:
                    notes.append('%s: callee %s has no parameter named %s' % (name, inner, k))
                elif A.differs(it, got[k], v):
                    notes.append('%s passes %r as %s.%s (expected %r)' % (name, got[k], inner, k, v))
            ppc = [c for c in rec.calls if c[0] == ppname]
            other = [c for c in rec.calls if c[0] not in (inner, ppname)]
            if other:
                notes.append('%s calls unexpected %s' % (name, [c[0] for c in other]))
            okp = it.feasible(z3.Bool('pp_ok')) and not it.feasible(z3.Not(z3.Bool('pp_ok')))
            if okp:
                if len(ppc) != 1:
                    notes.append('%s: %s called %d times after a successful preprocess' % (name, ppname, len(ppc)))
                else:
                    g = dict(zip(pp_names, ppc[0][1]))
                    if not (type(g.get('text')) is Opaque and g['text'].data == 'pt-token'):
                        notes.append('%s: %s.text is not the preprocessed text' % (name, ppname))
                    if not (type(g.get('defines')) is Opaque and g['defines'].data == 'defs-token'):
                        notes.append('%s: %s.defines is not the table returned by the preprocessor' % (name, ppname))
                    if A.differs(it, g.get('allow_incomplete'), s['inc']):
                        notes.append('%s passes %r as %s.allow_incomplete' % (name, g.get('allow_incomplete'), ppname))
                    want = getattr(rec, 'pp_result', None)
                    if want is None or A.differs(it, r, want) and not same_result(r, want):
                        notes.append('%s does not return the result of %s unchanged: %r instead of %r' % (name, ppname, r, want))
            else:
                if ppc:
                    notes.append('%s calls %s although preprocessing failed' % (name, ppname))
                if not (type(r) is Enum and r.variant == 'Err' and type(r.fields[0]) is Opaque and r.fields[0].data == 'pp-error'):
                    notes.append('%s does not return the preprocessor error unchanged: %r' % (name, r))
            return notes

        stubs = [(r'^%s::<' % inner if True else '', stub_inner), (r'^%s$' % ppname, stub_pp),
                 (r'^(parse_sv_pp|parse_lib_pp|preprocess_str::<|preprocess::<)', stub_other)]
        def env(it):
            # a wrapper that opens the file itself (instead of handing the path to preprocess) meets the symbolic file system
            fs = models_pp.SymFS()
            fs.add('dir/p.sv', CONTENTS + [None], z3.Bool('exists_p'))
            it.env['fs'] = fs
        res, ex, f = A.run_wrapper((name,), args_fn, stubs, check, env_fn=env)
        return summarize('wrappers', name, res, ex, t0, 'flags symbolic; callee args compared by parameter name')
    return Case('wrapper/' + name, work)


PROBES = [
    ('sv', 'module m; // c1\n  wire w; /* c2 */\nendmodule\n`include "inc.svh"\n', {'inc.svh': 'module inc; endmodule\n'}),
    ('sv', '\ufeffmodule b; endmodule\n', {}),
    ('sv', 'module a; endmodule\nmodule\n', {}),
    ('lib', '// lib comment\nlibrary l1 a.v; /* x */\n`include "missing.map"\n', {}),
    ('lib', 'library l2 b.v;\ninclude c.map\n', {}),
    # a header that exists only next to the top file (not in the working directory, not in an include path)
    ('sv', 'module s; endmodule\n`include "hdr.svh"\n', {'sub/hdr.svh': 'module h; endmodule\n'}, 'sub/top.sv'),
    ('lib', 'library l3 c.v;\n`include "hdr.map"\n', {'sub/hdr.map': 'library l4 d.v;\n'}, 'sub/top.sv'),
    # a top file that is not valid UTF-8 (file entry points only)
    ('sv', b'module u; endmodule // caf\xe9\n', {}),
    ('lib', b'library l5 e.v; // caf\xe9\n', {}),
]


def native_diff(model):
    """differential native replay: all entry points of a family on a probe corpus under the flag values of the
    counterexample; returns the first observable disagreement (or None)"""
    import itertools
    for ign, inc, strip in itertools.product((False, True), repeat=3):
        d = _native_diff1(ign, inc, strip)
        if d:
            return d
    return None


def _native_diff1(ign, inc, strip):
    from native import Scratch
    nat = E.native()
    for probe in PROBES:
        kind, content, files = probe[:3]
        top = probe[3] if len(probe) > 3 else 'top.sv'
        fl = dict(files)
        fl[top] = content
        binary = isinstance(content, bytes)
        with Scratch(fl) as sc:
            base = {'cwd': sc.dir, 'path': top, 'defines': {}, 'include_paths': [], 'ignore_include': ign, 'allow_incomplete': inc,
                    'lib': kind == 'lib', 'want': ['leaves', 'skeleton']}
            outs = {}
            for entry in (('file', 'pp_file') if binary else ('file', 'str', 'pp_file', 'pp_str')):
                q = dict(base, cmd='parse', entry=entry, text='' if binary else content, strip_comments=False)
                r = nat.request(q, cache=False)
                outs[entry] = json.dumps({k: r.get(k) for k in ('ok', 'leaves', 'skeleton', 'error')}, sort_keys=True)
            if len(set(outs.values())) > 1:
                return {'probe': repr(content), 'flags': {'ignore_include': ign, 'allow_incomplete': inc}, 'outputs': {k: v[:300] for k, v in outs.items()}}
            if binary:
                continue
            # preprocess(path) vs preprocess_str(contents)
            pa = nat.request({'cmd': 'preprocess', 'cwd': sc.dir, 'mode': 'file', 'path': top, 'defines': {}, 'strip_comments': strip, 'ignore_include': ign}, cache=False)
            pb = nat.request({'cmd': 'preprocess', 'cwd': sc.dir, 'mode': 'str', 'text': content, 'path': top, 'defines': {}, 'strip_comments': strip, 'ignore_include': ign}, cache=False)
            ka = json.dumps({k: pa.get(k) for k in ('ok', 'text', 'origins', 'error')}, sort_keys=True)
            kb = json.dumps({k: pb.get(k) for k in ('ok', 'text', 'origins', 'error')}, sort_keys=True)
            if ka != kb:
                return {'probe': content, 'flags': {'ignore_include': ign, 'strip_comments': strip}, 'preprocess': ka[:300], 'preprocess_str': kb[:300]}
    return None


def summarize(fam, label, res, ex, t0, text):
    out = {'family': fam, 'label': label, 'text': text, 'real_paths': len(res), 'ref_paths': 0, 'pairs': len(res), 'queries': ex.solver_checks,
           'solver_s': ex.solver_time, 'steps': ex.steps, 'models': ex.models_used, 'cex': [], 'obligations': [], 'case': {'wrapper': label}}
    seen = set()
    for r in res:
        if r.outcome == 'panic':
            out['cex'].append({'kind': 'panic', 'note': '%s panics: %s' % (label, r.panic['msg']), 'model': r.model, 'status': 'reproduced', 'role': 'panic:' + label})
            continue
        for ob in (getattr(r, 'obligations', None) or []):
            key = 'ob:' + ob['msg'][:60]
            if key in seen:
                continue
            seen.add(key)
            out['cex'].append({'kind': 'panic', 'note': '%s can panic: %s [model %s]' % (label, ob['msg'], ob.get('model')), 'model': ob.get('model'), 'status': 'reproduced',
                               'role': 'panic:' + label})
        for n in (r.value or []):
            if n in seen:
                continue
            seen.add(n)
            d = native_diff(r.model)
            if d is None and label.endswith('_pp'):
                # mode switch / error-location obligations of parse_X_pp are not observable as a disagreement between
                # entry points; they are replayed by the C14/C15 checks
                d = {'note': 'obligation on parse_X_pp itself'}
            out['cex'].append({'kind': 'args', 'note': n, 'model': r.model, 'status': 'reproduced' if d else 'not_reproduced', 'role': 'args:' + label,
                               'native': d})
    out['wall'] = round(time.time() - t0, 2)
    return out


def file_case():
    """preprocess(path, ..) = read file; preprocess_str(contents, path, same defines/paths, ignore_include, strip_comments, 0, include_depth=0)"""
    def work():
        t0 = time.time()
        f_str = E.fn('preprocess_str')
        pnames = A.param_names(f_str)

        def env(it):
            fs = models_pp.SymFS()
            fs.add('dir/p.sv', CONTENTS + [None], z3.Bool('exists_p'))
            it.env['fs'] = fs

        def args_fn(it):
            defs = Ref([Opaque('HashMap', HashMapV())], 0)
            incs = Ref([VecV([PathV('inc1')])], 0)
            s = {'defs': defs, 'incs': incs, 'ign': z3.Bool('ignore_include'), 'strip': z3.Bool('strip_comments'), 'path': PathV('dir/p.sv')}
            return [s['path'], defs, incs, s['strip'], s['ign']], s

        def stub_str(it, ci, a, d, rec):
            rec.calls.append(('preprocess_str', list(a)))
            return Opaque('RESULT', 'str-result')

        def check(it, r, rec, s):
            notes = []
            calls = [c for c in rec.calls if c[0] == 'preprocess_str']
            reads = it.env.get('reads', [])
            opened = it.env.get('opened', [])
            if opened != ['dir/p.sv']:
                notes.append('preprocess opens %r instead of the given path' % (opened,))
            exists = it.feasible(z3.Bool('exists_p')) and not it.feasible(z3.Not(z3.Bool('exists_p')))
            if not exists:
                if calls:
                    notes.append('preprocess_str called although the file is missing')
                e = r.fields[0] if (type(r) is Enum and r.variant == 'Err') else None
                if not (type(e) is Enum and e.variant == 'File' and deref(e.fields[1]).s == 'dir/p.sv'):
                    notes.append('missing file is not reported as File{path: the path tried}: %r' % (r,))
                return notes
            k = reads[0][1] if reads else None
            content = (CONTENTS + [None])[k] if k is not None else None
            if content is None:
                if calls:
                    notes.append('preprocess_str called although the file is not UTF-8')
                e = r.fields[0] if (type(r) is Enum and r.variant == 'Err') else None
                if not (type(e) is Enum and e.variant == 'ReadUtf8' and deref(e.fields[0]).s == 'dir/p.sv'):
                    notes.append('non-UTF-8 file is not reported as ReadUtf8(path): %r' % (r,))
                return notes
            if len(calls) != 1:
                return ['preprocess calls preprocess_str %d times' % len(calls)]
            got = dict(zip(pnames, calls[0][1]))
            try:
                gs = sv(got.get('s'))
            except Exception:
                gs = None
            if gs != content:
                notes.append('preprocess(path) hands %r to preprocess_str, the file contains %r' % (gs, content))
            exp = {'path': s['path'], 'pre_defines': s['defs'], 'include_paths': s['incs'], 'strip_comments': s['strip'], 'ignore_include': s['ign'],
                   'resolve_depth': 0, 'include_depth': 0}
            for kk, v in exp.items():
                if kk not in got:
                    notes.append('preprocess_str has no parameter named %s' % kk)
                elif A.differs(it, got[kk], v):
                    notes.append('preprocess passes %r as preprocess_str.%s (expected %r)' % (got[kk], kk, v))
            if not (type(r) is Opaque and r.data == 'str-result'):
                notes.append('preprocess does not return the result of preprocess_str')
            return notes
        res, ex, f = A.run_wrapper(('preprocess', lambda e: len(e.argnorm) == 5), args_fn, [(r'^preprocess_str::<', stub_str)], check, env_fn=env)
        return summarize('file-vs-string', 'preprocess', res, ex, t0, 'file contents: %r + invalid UTF-8 + missing' % (CONTENTS,))
    return Case('file/preprocess', work)


SEG_LAYOUTS = [
    [(4, 'a.sv', 10), (3, None, 0), (5, 'b.svh', 0)],
    # the text starts with bytes that have no origin (a predefined macro, `__LINE__) and ends with such bytes
    [(3, None, 0), (4, 'a.sv', 10), (5, 'b.svh', 0), (2, None, 0)],
]


def pp_case(lib, layout=0):
    """parse_X_pp: parser selection by allow_incomplete, result assembly, error location mapping"""
    name = 'parse_%s_pp' % ('lib' if lib else 'sv')
    strict, incompl = ('lib_parser', 'lib_parser_incomplete') if lib else ('sv_parser', 'sv_parser_incomplete')
    root = 'LibraryText' if lib else 'SourceText'

    def work():
        t0 = time.time()
        f_new = E.fn('new', lambda e: e.retnorm == 'PreprocessedText')
        f_push = E.fn('push', lambda e: e.argnorm and e.argnorm[0] == '&PreprocessedText')
        segs = SEG_LAYOUTS[layout]
        total = sum(s[0] for s in segs)

        def args_fn(it):
            cell = [it.run_func(f_new, [])]
            for k, (L, p, src) in enumerate(segs):
                org = none() if p is None else some(Tup([PathV(p), Struct('Range', [src, src + L])]))
                # the text starts with a byte order mark and holds multi-byte characters: it must reach the parser unchanged
                content = ('\ufeff' + 'x' * (L - 3)) if k == 0 and L >= 3 else 'x' * L
                it.run_func(f_push, [Ref(cell, 0), content, org])
            defs = Opaque('HashMap', HashMapV())
            s = {'pt': cell[0], 'defs': defs, 'inc': z3.Bool('allow_incomplete')}
            return [cell[0], defs, s['inc']], s

        def stub_parser(it, ci, a, d, rec):
            rec.calls.append((ci.name, list(a)))
            k = it.choose([z3.Int('outcome') == i for i in range(4)], 'parser_outcome')
            if k == 0:
                return ok(Tup([Opaque('Span', {'text': '', 'off': total}), Struct(root, [Opaque('TREE', 'tree-token')])]))
            if k == 3:
                return err(Enum('Err', 'Incomplete', 0, [E.UNIT]))
            p = z3.Int('errpos')
            it.assume(z3.And(p >= 0, p <= total))
            ge = Opaque('GreedyError', {'pos': p})
            return err(Enum('Err', 'Error' if k == 1 else 'Failure', k, [ge]))

        def check(it, r, rec, s):
            notes = []
            pc = [c for c in rec.calls if c[0] in (strict, incompl, 'sv_parser', 'sv_parser_incomplete', 'lib_parser', 'lib_parser_incomplete')]
            if len(pc) != 1:
                return ['%s calls a parser %d times' % (name, len(pc))]
            inc_true = not it.feasible(z3.Not(s['inc']))
            inc_false = not it.feasible(s['inc'])
            want = incompl if inc_true else (strict if inc_false else None)
            if want is None:
                notes.append('%s: parser chosen without deciding allow_incomplete' % name)
            elif pc[0][0] != want:
                notes.append('%s with allow_incomplete=%s calls %s (expected %s)' % (name, inc_true, pc[0][0], want))
            span = pc[0][1][0]
            if not (type(span) is Opaque and span.kind == 'Span' and span.data['text'] == '\ufeff' + 'x' * (total - 3)):
                notes.append('%s does not parse the preprocessed text: %r' % (name, span))
            m = it.model_for()
            outcome = int(m.get('outcome', '0')) if m else 0
            if outcome == 0:
                good = type(r) is Enum and r.variant == 'Ok'
                if good:
                    st, df = r.fields[0].fields
                    node = st.fields[0]
                    good = (type(node) is Enum and node.ty == 'AnyNode' and node.variant == root and
                            type(node.fields[0]) is Struct and node.fields[0].fields[0].data == 'tree-token' and
                            st.fields[1] is s['pt'] or (type(st.fields[1]) is Struct and st.fields[1].fields[0] is s['pt'].fields[0]))
                    if not (type(df) is Opaque and df.data is s['defs'].data):
                        notes.append('%s does not return the define table it was given' % name)
                if not good:
                    notes.append('%s: Ok result is not SyntaxTree{node: %s tree, text: the preprocessed text}: %r' % (name, root, r))
                return notes
            if not (type(r) is Enum and r.variant == 'Err' and type(r.fields[0]) is Enum and r.fields[0].variant == 'Parse'):
                notes.append('%s: parser failure is not reported as Error::Parse: %r' % (name, r))
                return notes
            loc = r.fields[0].fields[0]
            if outcome == 3:
                if loc.variant != 'None':
                    notes.append('%s: Incomplete must map to Parse(None)' % name)
                return notes
            p = z3.Int('errpos')
            # oracle: origin of byte p of the preprocessed text (C03), None outside / for synthesised text
            base = 0
            conds = []
            for L, path, src in segs:
                conds.append((z3.And(p >= base, p < base + L), path, src + (p - base)))
                base += L
            if loc.variant == 'None':
                bad = z3.Or([c for c, path, o in conds if path is not None])
            else:
                gp = deref(loc.fields[0].fields[0]).s
                go = loc.fields[0].fields[1]
                bad = z3.Or([z3.And(c, z3.BoolVal(path is None) if path is None else z3.Or(z3.BoolVal(gp != path), go != o)) for c, path, o in conds] + [p >= total])
            if it.feasible(bad):
                notes.append('%s: error position %s is reported as %r, not as origin(position) [model %s]' % (name, 'errpos', loc, it.model_for(bad)))
            return notes
        stubs = [(r'^(sv_parser|sv_parser_incomplete|lib_parser|lib_parser_incomplete)$', stub_parser)]
        res, ex, f = A.run_wrapper((name,), args_fn, stubs, check)
        return summarize('two-step', name, res, ex, t0, 'parser outcome (Ok | Error at p | Failure at p | Incomplete), p and allow_incomplete symbolic; text = %d real segments' % len(segs))
    return Case('pp/' + name + ('' if layout == 0 else '/layout%d' % layout), work)


def all_cases():
    cs = []
    for lib in (False, True):
        for via_str in (False, True):
            cs.append(wrapper_case(None, lib, via_str))
        for k in range(len(SEG_LAYOUTS)):
            cs.append(pp_case(lib, k))
    cs.append(file_case())
    return cs


def families(args):
    cases = all_cases()
    fam = ppprop.Family('entry-point-wrappers', cases, None, ('args', 'panic'), custom_work=lambda c: c.fn())
    return [fam]


def main():
    args = proprun.parse_args(PID)
    return ppprop.run(PID, 'model_checking', families, args,
                      rule='one case per public wrapper (parse_sv, parse_sv_str, parse_lib, parse_lib_str, parse_sv_pp, parse_lib_pp, preprocess): the wrapper MIR is executed with recording stubs for its '
                           'callees; ignore_include, allow_incomplete, strip_comments, the preprocessor outcome, the parser outcome and the error position are symbolic; file contents range over a '
                           'family including BOM, CRLF, empty and non-UTF-8; obligations by callee parameter name',
                      bounds={'tier': args.tier, 'file contents': len(CONTENTS) + 1}, outside=['equality of whole parses is reduced to equality of the call sequence and its arguments (the parser is a function of its input text: C07)'],
                      assumptions=ppprop.STD_ASSUMPTIONS[:2] + ['callees of the wrappers replaced by recording stubs returning symbolic results; File::open/read_to_string = symbolic file system'],
                      sample_sym='ignore_include, allow_incomplete, strip_comments, pp_ok, outcome, errpos, exists_p, fs_alt_*')


if __name__ == '__main__':
    sys.exit(main())
