"""C05  Macro usages expand per IEEE 22.5.1 and misuse is reported by name."""
import sys
import engine as E
import ppsuite, ppref, ppfamily, proprun, ppprop
from engine import PPCase

PID = 'C05'


def mk_case(pg):
    text = ppref.render(pg.items)
    sym = {n: ppfamily.ALT_BODIES[n] for n in pg.names}
    return PPCase(text, path='top.sv', sym_defines=sym, strip='sym', label=pg.label)


def evalfn(st, items, file, strip, ign):
    ppref.ref_eval(st, items, file, None, strip, ppref.text_expander, ign, st.include_paths)


def families(args):
    progs = ppfamily.macro_programs(args.tier, args.seed)
    fam = ppprop.Family('ieee-22.5.1-programs', progs, mk_case, ('tokens', 'table'), evalfn=evalfn)
    return [fam]


def main():
    args = proprun.parse_args(PID)
    return ppprop.run(PID, 'model_checking', families, args,
                      rule='define/usage programs after IEEE 22.5.1 (formals with/without defaults, omitted/empty actuals, the three error cases by name, actuals with nested brackets/strings/commas, '
                           '`` `" `\\\\`" continuation lines, // in bodies, nesting in bodies and arguments, redefinition between uses, caller-supplied macros) on the real preprocess_str + '
                           'resolve_text_macro_usage + split_text MIR with the define table and strip_comments symbolic, compared token-wise with a text-level reference expander',
                      bounds={'tier': args.tier}, outside=['bodies/arguments outside the family', 'non-ASCII in macro bodies', '$ inside identifiers of macro bodies'],
                      assumptions=ppprop.STD_ASSUMPTIONS, sample_sym='def_A, alt_A_0, strip_comments')


if __name__ == '__main__':
    sys.exit(main())
