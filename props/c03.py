"""C03  Origin map sends every output byte back to the file and offset it came from.

(a) map core: the real PreprocessedText::{new,push,merge,origin} and Range::* executed from MIR on
    a symbolic sequence of pushes (lengths, source offsets symbolic; optional nested merge) and a symbolic
    probe position; BTreeMap = std's B-tree algorithm with the real comparator.
(b) emission sites: the real preprocess_str on texts exercising every push site, define table and
    strip_comments symbolic, origins compared with the provenance computed by the reference."""
import sys, time, itertools
import z3
import engine as E
import ppsuite, ppref, ppfamily, proprun, ppprop
from engine import PPCase, Ref, AbsStr, PathV, Struct, Tup
from models import Models, some, none, deref
from interp import Explorer, Inconclusive

PID = 'C03'
LMAX = 3


class MapShape:
    def __init__(self, label, k_outer_before, k_inner, k_outer_after, minlen, sym_has=True, tree=None):
        self.label = label
        self.shape = (k_outer_before, k_inner, k_outer_after)
        self.minlen = minlen
        self.sym_has = sym_has      # whether "pushed with / without an origin" is symbolic per segment
        # op tree: 'p' = one push, a list = a text built the same way and merged at that point
        self.tree = tree if tree is not None else (['p'] * k_outer_before + ([['p'] * k_inner] if k_inner else []) + ['p'] * k_outer_after)


def tree_count(t):
    return sum(1 if x == 'p' else tree_count(x) for x in t)


def tree_depth(t):
    return max([0] + [1 + tree_depth(x) for x in t if x != 'p'])


def tree_str(t):
    return ''.join('p' if x == 'p' else '(' + tree_str(x) + ')' for x in t)


_TIER = ['quick']


def args_tier():
    return _TIER[0]


def ops_tree(tree, mk):
    ctr = [0]

    def go(t):
        out = []
        for x in t:
            if x == 'p':
                out.append(mk(ctr[0]))
                ctr[0] += 1
            else:
                out.append({'op': 'merge', 'ops': go(x)})
        return out
    return go(tree)


def mapcore_work(sh):
    """one symbolic op sequence shape: pushes before, an optional merged inner text, pushes after"""
    P = E.prog()
    f_new = E.fn('new', lambda e: e.retnorm == 'PreprocessedText')
    f_push = E.fn('push', lambda e: e.argnorm and e.argnorm[0] == '&PreprocessedText')
    f_merge = E.fn('merge', lambda e: e.argnorm and e.argnorm[0] == '&PreprocessedText')
    f_origin = E.fn('origin', lambda e: e.argnorm and e.argnorm[0] == '&PreprocessedText')
    kb, ki, ka = sh.shape
    n = tree_count(sh.tree)
    t0 = time.time()

    def body(it):
        lens = [z3.Int('len%d' % i) for i in range(n)]
        srcs = [z3.Int('src%d' % i) for i in range(n)]
        has = [z3.Bool('has%d' % i) if sh.sym_has else z3.BoolVal(True) for i in range(n)]
        pos = z3.Int('pos')
        for i in range(n):
            it.assume(z3.And(lens[i] >= sh.minlen, lens[i] <= LMAX, srcs[i] >= 0, srcs[i] <= 100))
        it.assume(pos >= 0)

        def push(cell, i):
            if (not sh.sym_has) or it.decide(has[i], 'has_origin'):
                org = some(Tup([PathV('p%d' % i), Struct('Range', [srcs[i], srcs[i] + lens[i]])]))
            else:
                org = none()
            it.run_func(f_push, [Ref(cell, 0), AbsStr(lens[i]), org])
        ctr = [0]

        def build(tree):
            cell = [it.run_func(f_new, [])]
            for x in tree:
                if x == 'p':
                    push(cell, ctr[0])
                    ctr[0] += 1
                else:
                    inner = build(x)
                    it.run_func(f_merge, [Ref(cell, 0), inner[0]])
            return cell
        outer = build(sh.tree)
        total = sum(lens)
        it.assume(pos < total)
        r = it.run_func(f_origin, [Ref(outer, 0), pos])
        r = it.concretize(r)
        # oracle: the segment containing pos
        base = 0
        conds = []
        for i in range(n):
            conds.append((z3.And(pos >= base, pos < base + lens[i]), i, srcs[i] + (pos - base)))
            base = base + lens[i]
        if r.variant == 'None':
            bad = z3.Or([z3.And(c, has[i]) for c, i, o in conds])
        else:
            path = deref(r.fields[0].fields[0]).s
            off = r.fields[0].fields[1]
            bad = z3.Or([z3.And(c, z3.Or(z3.Not(has[i]), off != o, z3.BoolVal(path != 'p%d' % i))) for c, i, o in conds])
        if it.feasible(bad):
            m = it.model_for(bad)
            got = None if r.variant == 'None' else [deref(r.fields[0].fields[0]).s, str(r.fields[0].fields[1])]
            return {'bad': True, 'model': m, 'got': got}
        return {'bad': False}
    mdl = Models()
    ex = Explorer(P, mdl, body, max_paths=6000, step_limit=5_000_000)
    ex.stop_when = lambda r: r.outcome == 'panic' or (r.outcome == 'ok' and isinstance(r.value, dict) and r.value.get('bad'))
    ex.deadline = time.time() + (240 if args_tier() == 'quick' else 1800)
    res = ex.run()
    if ex.truncated and not getattr(ex, 'stopped_early', False):
        raise Inconclusive('map core shape %s: path budget exhausted' % sh.label)
    out = {'family': 'mapcore', 'label': sh.label, 'text': 'ops: %s (p = push, (..) = merge of a text built inside; merge depth %d); len in [%d,%d]' % (tree_str(sh.tree), tree_depth(sh.tree), sh.minlen, LMAX),
           'real_paths': len(res), 'ref_paths': 0, 'pairs': len(res), 'queries': ex.solver_checks, 'solver_s': ex.solver_time,
           'steps': ex.steps, 'models': dict(mdl.called), 'cex': [], 'obligations': [], 'case': {'tree': tree_str(sh.tree), 'minlen': sh.minlen}}
    seen = 0

    def ops_of(m):
        def iv(name, d=0):
            return int(m.get(name, d))

        def mk(i):
            L = iv('len%d' % i, sh.minlen)
            org = [i, iv('src%d' % i), iv('src%d' % i) + L] if (m.get('has%d' % i, 'False') == 'True' or not sh.sym_has) else None
            op = {'op': 'push', 'len': L, 'origin': org}
            if any(k.startswith('charcount_') for k in m) and L >= 2:
                op['text'] = '\u00e9' + 'x' * (L - 2)      # multi-byte content (chars != bytes)
            return op
        return ops_tree(sh.tree, mk)

    npanic = 0
    for r in res:
        panics = [dict(ob, model=ob.get('model')) for ob in r.obligations]
        if r.outcome == 'panic':
            panics.append({'msg': r.panic['msg'], 'model': r.model})
        for ob in panics:
            out['obligations'].append(ob)
            if npanic >= 3 or not ob.get('model'):
                continue
            npanic += 1
            ops = ops_of(ob['model'])
            nat = E.native().request({'cmd': 'pt_ops', 'ops': ops}, cache=False)
            out['cex'].append({'kind': 'panic', 'note': 'panic in push/merge/origin: %s for ops %s' % (ob['msg'], ops), 'model': ob['model'],
                               'status': 'reproduced' if (nat.get('panic') or nat.get('crash')) else 'not_reproduced',
                               'role': 'mapcore-panic:%s' % sh.label, 'native': nat})
        if r.outcome == 'panic':
            continue
        v = r.value
        if v and v['bad'] and seen < 3:
            seen += 1
            # replay on the real BTreeMap through svreplay pt_ops
            m = v['model']
            def iv(name, d=0):
                return int(m.get(name, d))
            def mk(i):
                L = iv('len%d' % i, sh.minlen)
                org = [i, iv('src%d' % i), iv('src%d' % i) + L] if (m.get('has%d' % i, 'False') == 'True' or not sh.sym_has) else None
                return {'op': 'push', 'len': L, 'origin': org}
            ops = ops_tree(sh.tree, mk)
            nat = E.native().request({'cmd': 'pt_ops', 'ops': ops}, cache=False)
            pos = iv('pos')
            got_native = nat['origins'][pos] if nat.get('ok') and pos < len(nat['origins']) else 'n/a'
            exp = None
            base = 0
            for i in range(n):
                L = iv('len%d' % i, sh.minlen)
                if base <= pos < base + L:
                    exp = ['p%d' % i, iv('src%d' % i) + pos - base] if (m.get('has%d' % i, 'False') == 'True' or not sh.sym_has) else None
                base += L
            interp_got = v['got']
            if interp_got is not None:
                try:
                    interp_got = [interp_got[0], int(z3.simplify(z3.substitute(z3.Int('x'), )).as_long())] if False else interp_got
                except Exception:
                    pass
            reproduced = (got_native != exp)
            anyzero = any(iv('len%d' % i, sh.minlen) == 0 for i in range(n))
            role = 'F2:empty-push-leaves-zero-width-key' if anyzero else 'mapcore:%s' % sh.label
            out['cex'].append({'kind': 'origin', 'note': 'origin(%d) = %r, expected %r for ops %s' % (pos, got_native, exp, ops), 'model': m,
                               'status': 'reproduced' if reproduced else 'not_reproduced', 'role': role, 'native': nat, 'ops': ops})
    out['wall'] = round(time.time() - t0, 2)
    return out


def site_case(pg):
    text = ppref.render(pg.items)
    sym = {n: ppfamily.ALT_BODIES[n] for n in pg.names}
    return PPCase(text, path='top.sv', sym_defines=sym, strip='sym', label=pg.label)


def site_role(pg, mm, nat):
    note = mm.get('note', '')
    if mm['kind'] == 'origin':
        if 'trivia byte' in note and 'endif' in pg.label:
            return 'F1:whitespace-after-directive-origin-off-by-len'
        if 'has no origin' in note and ('use-' in pg.label):
            return 'F2:empty-push-leaves-zero-width-key'
    return None


def families(args):
    _TIER[0] = args.tier
    shapes = []
    for minlen in (1, 0):
        # segments that may be empty (min0) double the branching of every push: 5 of them in thorough, 7 non-empty ones
        kmax = 4 if args.tier == 'quick' else (7 if minlen else 5)
        for k in range(1, kmax + 1):
            shapes.append(MapShape('push%d/min%d' % (k, minlen), k, 0, 0, minlen))
        mk = 2 if args.tier == 'quick' else 3
        for kb, ki, ka in itertools.product(range(0, mk + 1), range(1, mk + 1), range(0, mk + 1)):
            if kb + ki + ka <= kmax:
                shapes.append(MapShape('merge%d-%d-%d/min%d' % (kb, ki, ka, minlen), kb, ki, ka, minlen))
    # many non-empty segments: the map grows past one B-tree node (std CAPACITY = 11), internal-node search
    for k in ((9, 12, 14) if args.tier == 'quick' else (9, 12, 14, 18, 24, 30)):
        shapes.append(MapShape('push%d/min1' % k, k, 0, 0, 1, sym_has=False))
    for kb, ki, ka in (((6, 7, 2), (2, 12, 1)) if args.tier == 'quick' else ((6, 7, 2), (2, 12, 1), (12, 12, 3), (0, 13, 13))):
        shapes.append(MapShape('merge%d-%d-%d/min1' % (kb, ki, ka), kb, ki, ka, 1, sym_has=False))
    # nested merges (an include inside a macro expansion inside an include ...): offsets are shifted once per level
    P = 'p'
    nested = [('n2a', [P, [P, [P, P], P], P]), ('n2b', [[[P, P]], P]), ('n2c', [P, [[P], [P, P]]]), ('n3a', [[P, [[P, [P]], P]], P])]
    if args.tier != 'quick':
        nested += [('n2d', [P, P, [P, [P, P, P], P, [P]], P]), ('n3b', [P, [P, [P, [P, P], P], P], P]), ('n4', [[[[[P, P], P], P], P], P])]
    for name, tr in nested:
        for minlen in (1, 0):
            if minlen == 0 and tree_count(tr) > (4 if args.tier == 'quick' else 5):
                continue
            shapes.append(MapShape('nest-%s-%s/min%d' % (name, tree_str(tr), minlen), 0, 0, 0, minlen, tree=tr))
    if args.tier != 'quick':
        big = [P] * 5 + [[P] * 4 + [[P] * 6 + [[P] * 3] + [P] * 2] + [P] * 3] + [P] * 2
        shapes.append(MapShape('nest-big-%s/min1' % tree_str(big), 0, 0, 0, 1, sym_has=False, tree=big))
    fam_map = ppprop.Family('mapcore', shapes, None, ('origin',), custom_work=mapcore_work)
    com_sites = [p for p in ppfamily.comment_programs(args.tier, args.seed) if p.label in ('com/line', 'com/line/crlf', 'com/multi', 'com/multi/crlf', 'com/sole-sep')]
    fam_sites = ppprop.Family('sites', ppfamily.site_programs(args.tier, args.seed) + com_sites, site_case, ('origin', 'tokens'),
                              want_origins=True, role_fn=site_role)
    import c10
    incs = [p for p in ppfamily.include_programs(args.tier, args.seed)
            if p.label in ('inc/non-ascii', 'inc/nested', 'inc/twice', 'inc/flow-in', 'inc/macro-named', 'inc/search/q/p1-p2',
                           'inc/no-final-newline', 'inc/no-final-newline-angle', 'inc/macro-named-no-final-newline', 'inc/nested/crlf')]
    fam_inc = ppprop.Family('sites-includes', incs, c10.mk_case, ('origin', 'tokens'), want_origins=True,
                            quirk_roles=[(('macro_named_include_drops_trailing_ws',), 'F11:macro-named-include-drops-the-white-space-after-it', ('tokens',))])
    return [fam_map, fam_sites, fam_inc]


def main():
    args = proprun.parse_args(PID)
    return ppprop.run(PID, 'model_checking', families, args,
                      rule='mapcore: one case per op-sequence shape (k pushes / pushes+merge+pushes / merges nested up to 4 levels), all lengths 0..3 (and the >=1 sub-family), source offsets, '
                           'presence of an origin and the probe position symbolic, executed on the real push/merge/origin/Range MIR; sites: one case per text of the '
                           'emission-site family with define table and strip_comments symbolic; distinct_nontrivial = (case, feasible path) pairs of cases with >1 path',
                      bounds={'tier': args.tier, 'mapcore': 'segments <= 4 quick / 5 thorough with len 0..3, <= 7 thorough with len 1..3; up to 14 quick / 30 thorough segments with len 1..3 (internal B-tree nodes); merges nested up to 3 levels quick / 4 thorough (<= 6 quick / 9 thorough segments, one 25-segment shape in thorough)', 'sites': 'text family lib/ppfamily.site_programs'},
                      outside=['more segments than the bound in the symbolic map-core query (larger maps occur only through the concrete site texts)',
                               'merges nested deeper than 4 levels in the map-core query', 'SyntaxTree::get_origin (one-line wrapper, covered by C20/C14 harness of sv-parser crate)'],
                      assumptions=ppprop.STD_ASSUMPTIONS,
                      sample_sym='lengths/offsets/has-origin/pos (mapcore); def_A, alt_A, strip_comments (sites)')


if __name__ == '__main__':
    sys.exit(main())
