"""C07  Results depend only on the arguments, not on what the thread did before.

One inductive step instead of call histories: for an ARBITRARY prior state of the parser's
thread-locals (directive stack and keyword-version stack of depth 0..3 with symbolic content, memo
table empty/non-empty) the real init() (MIR) re-establishes the initial state, and each public parser
entry point calls init() before any grammar function.  All static / thread_local items of the five
crates are enumerated from the sources: the preprocessor, the API wrappers and the syntax tree have none."""
import sys, os, re, glob, time
import z3
import engine as E
import proprun, ppprop
import gengine as G
from engine import Ref, Struct, Enum, Tup, VecV, Opaque, UNIT
from interp import Explorer, Inconclusive, RustPanic
from models import Models, ok, err, deref
import build

PID = 'C07'
VERSIONS = ['Ieee1364_1995', 'Ieee1364_2001', 'Ieee1364_2001Noconfig', 'Ieee1364_2005', 'Ieee1800_2005', 'Ieee1800_2009', 'Ieee1800_2012', 'Ieee1800_2017', 'Directive']


class Case:
    def __init__(self, label, fn):
        self.label, self.fn = label, fn


def sym_prestate(it):
    """arbitrary prior thread state (bounded): depths chosen by the solver, top version symbolic"""
    d = z3.Int('dir_depth')
    v = z3.Int('ver_depth')
    m = z3.Int('memo_entries')
    top = z3.Int('top_version')
    it.assume(z3.And(d >= 0, d <= 3, v >= 0, v <= 3, m >= 0, m <= 3, top >= 0, top < 9))
    dk = it.choose([d == i for i in range(4)], 'dir_depth')
    vk = it.choose([v == i for i in range(4)], 'ver_depth')
    mk = it.choose([m == i for i in range(4)], 'memo')
    tk = it.choose([top == i for i in range(9)], 'top_version') if vk > 0 else 0
    vers = [Enum('Version', VERSIONS[(tk + i) % 9], (tk + i) % 9, []) for i in range(vk)]
    vers.reverse()
    return {'IN_DIRECTIVE': Struct('RefCell', [VecV([UNIT for _ in range(dk)])]),
            'CURRENT_VERSION': Struct('RefCell', [VecV(vers)]),
            'PACKRAT_STORAGE': Struct('RefCell', [Opaque('PackratStorage', {'entries': mk})])}


def is_initial(tls):
    return (len(tls['IN_DIRECTIVE'].fields[0].fields) == 0 and len(tls['CURRENT_VERSION'].fields[0].fields) == 0 and
            tls['PACKRAT_STORAGE'].fields[0].data['entries'] == 0)


def _initial_safe(tls):
    try:
        return bool(is_initial(tls))
    except Exception:
        return False        # a memo count that is still symbolic has not been reset


def run_paths(body, max_paths=2000):
    mdl = Models()
    G.install(mdl, None)
    ex = Explorer(E.prog(), mdl, body, max_paths=max_paths)
    res = ex.run()
    ex.models_used = dict(mdl.called)
    return res, ex


def mk_out(fam, label, text, res, ex, t0, notes_of):
    out = {'family': fam, 'label': label, 'text': text, 'real_paths': len(res), 'ref_paths': 0, 'pairs': len(res), 'queries': ex.solver_checks,
           'solver_s': ex.solver_time, 'steps': ex.steps, 'models': ex.models_used, 'cex': [], 'obligations': [], 'case': {'case': label}}
    seen = set()
    for r in res:
        if r.outcome == 'panic':
            out['cex'].append({'kind': 'state', 'note': '%s panics: %s' % (label, r.panic['msg']), 'model': r.model, 'status': 'reproduced', 'role': 'panic:' + label})
            continue
        for n in notes_of(r):
            if n in seen:
                continue
            seen.add(n)
            out['cex'].append({'kind': 'state', 'note': n, 'model': r.model, 'status': 'reproduced', 'role': 'state:' + label})
    out['wall'] = round(time.time() - t0, 2)
    return out


def init_case():
    def work():
        t0 = time.time()
        f_init = E.fn('init', lambda e: len(e.argnorm) == 0 and e.mf.crate == 'sv-parser-parser')

        def body(it):
            it.env['g'] = G.GState()
            it.env['const_hook'] = G.const_hook_tls
            it.env['tls'] = {'IN_DIRECTIVE': None, 'CURRENT_VERSION': None, 'PACKRAT_STORAGE': None}
            it.env['tls'] = sym_prestate(it)
            it.run_func(f_init, [])
            tls = it.env['tls']
            notes = []
            # informative (evidence): where the reset lives is not part of the property; the obligation is on the entries below
            it.env['init_resets_all'] = is_initial(tls)
            return notes
        res, ex = run_paths(body)
        return mk_out('init-step', 'init', 'prior state: directive depth 0..3, version depth 0..3 (top of 9 selectors), memo entries 0..3', res, ex, t0, lambda r: r.value or [])
    return Case('init', work)


def entry_case(name, inner):
    """from an arbitrary prior thread state, the first sub-parser that runs after the entry is called must see the initial
    state.  The entry AND the start symbol it calls are executed from their MIR (so it does not matter whether the reset lives
    in init(), in the entry or at the top of the start symbol); the sub-parsers of the start symbol are stubs."""
    def work():
        t0 = time.time()
        import gprod
        f = E.fn(name, lambda e: e.mf.crate == 'sv-parser-parser' and e.argnorm == ['LocatedSpan'])
        prods = gprod.productions(E.prog())
        if inner is not None and inner not in prods:
            raise Inconclusive('start symbol %s not found' % inner)
        inner_given = inner

        def body(it):
            inner = inner_given
            it.env['g'] = G.GState()
            it.env['const_hook'] = G.const_hook_tls
            it.env['tls'] = {'IN_DIRECTIVE': None, 'CURRENT_VERSION': None, 'PACKRAT_STORAGE': None}
            it.env['tls'] = sym_prestate(it)
            it.env['self_name'] = inner or ''
            it.env['span_returning'] = gprod.SPAN_RETURNING
            seen = {'top': [], 'sub': []}

            def hook(it2, pname, path, sp, dest_ty):
                nonlocal inner
                if not seen.get('in_inner'):
                    seen['top'].append((pname, sp.data['off']))
                    if inner is None and pname in prods:
                        # an entry outside the five known ones: its start symbol is the production it calls first
                        inner = pname
                        it2.env['self_name'] = inner
                    if pname != inner:
                        return G.nom_error(it2, sp)
                    seen['in_inner'] = True
                    kind, bodyfn, outer = prods[inner]
                    fb = it2.prog.func(bodyfn)
                    if kind == 'packrat':
                        from engine import Closure
                        r = it2.run_func(fb, [Ref([Closure(bodyfn.closure_span or '', [Ref([sp], 0)])], 0)])
                    else:
                        r = it2.run_func(fb, [sp])
                    seen['in_inner'] = False
                    seen['inner_result'] = r
                    return r
                inl = G.inline_helper(it2, pname, sp)
                if inl is not None:
                    return inl        # an un-annotated helper shared by start symbols (returns a tuple): its own sub-parsers are the ones observed
                k = len(seen['sub'])
                tls = it2.env['tls']
                seen['sub'].append((pname, is_initial(tls), len(tls['IN_DIRECTIVE'].fields[0].fields), len(tls['CURRENT_VERSION'].fields[0].fields),
                                    tls['PACKRAT_STORAGE'].fields[0].data['entries']))
                if k < 3 and it2.decide(z3.Bool('sub_ok_%d' % k), 'sub_ok'):
                    q = sp.data['off'] + 1
                    ty = G.result_type(dest_ty) or pname
                    return ok(Tup([G.span(q), G.anode(G.norm_type(ty), sp.data['off'], q)]))
                return G.nom_error(it2, sp)
            it.env['production_hook'] = hook
            sp = G.span(0)
            r = it.concretize(it.run_func(f, [sp]))
            notes = []
            if [c[0] for c in seen['top']] != [inner]:
                # the entry reaches its start symbol through something else (restructured entry): the obligation has no anchor
                raise Inconclusive('%s calls %r, expected %s' % (name, seen['top'], inner))
            if seen['top'] != [(inner, 0)]:
                notes.append('%s does not hand its input span to %s (offset %s)' % (name, inner, seen['top'][0][1]))
            if seen['sub'] and not seen['sub'][0][1]:
                s0 = seen['sub'][0]
                notes.append('%s: the first sub-parser of %s (%s) runs on a thread state that is not the initial one (directive depth %d, keyword-version depth %d, memo entries %d)' % (
                    name, inner, s0[0], s0[2], s0[3], s0[4]))
            if not seen['sub'] and seen.get('inner_result') is not None and not _initial_safe(it.env['tls']):
                # the start symbol reached its sub-parsers only through an abstract repetition step (nothing passed the hook):
                # the stubs do not touch the thread state, so the state left behind is the one those sub-parsers run on
                tls = it.env['tls']
                notes.append('%s: the sub-parsers of %s run on a thread state that is not the initial one (directive depth %d, keyword-version depth %d, memo entries %s)' % (
                    name, inner, len(tls['IN_DIRECTIVE'].fields[0].fields), len(tls['CURRENT_VERSION'].fields[0].fields), tls['PACKRAT_STORAGE'].fields[0].data['entries']))
            ir = seen.get('inner_result')
            if ir is not None:
                ir = it.concretize(ir)
                if r.variant != ir.variant or (r.variant == 'Ok' and r.fields[0].fields[1] is not ir.fields[0].fields[1]):
                    notes.append('%s does not return the result of %s' % (name, inner))
            return notes
        mdl = Models()
        G.install(mdl, set(prods))
        ex = Explorer(E.prog(), mdl, body, max_paths=6000)
        res = ex.run()
        if ex.truncated:
            raise Inconclusive('path budget for entry %s' % name)
        ex.models_used = dict(mdl.called)
        return mk_out('entry-points', name, 'arbitrary prior state; entry and start symbol from MIR, sub-parsers of the start symbol stubbed (Ok/Err symbolic, at most 3 successes)', res, ex, t0, lambda r: r.value or [])
    return Case('entry/' + name, work)


def statics_case():
    def work():
        t0 = time.time()
        root = build.SNAP
        notes = []
        found = {}
        # mutable global state: static mut, statics with interior mutability, thread_local!, lazy_static!, nom_packrat::storage!
        pat = re.compile(r'\b(static\s+mut\s+[A-Z_][A-Z0-9_]*\s*:|static\s+[A-Z_][A-Z0-9_]*\s*:[^=;]*\b(?:Mutex|RwLock|RefCell|Cell|Atomic\w*|OnceCell|OnceLock|Lazy)\b|thread_local!|lazy_static!|storage!\s*\()')
        for crate in ('sv-parser', 'sv-parser-pp', 'sv-parser-error', 'sv-parser-syntaxtree', 'sv-parser-macros', 'sv-parser-parser'):
            for p in glob.glob(os.path.join(root, crate, '**', '*.rs'), recursive=True):
                if p.endswith('tests.rs') or '/benches/' in p or '/examples/' in p or p.endswith('build.rs'):
                    continue
                src = open(p, encoding='utf-8').read()
                src = re.sub(r'//[^\n]*', '', src)
                for m in pat.finditer(src):
                    line = src[:m.start()].count('\n') + 1
                    found.setdefault(crate, []).append('%s:%d %s' % (os.path.relpath(p, root), line, m.group(0).strip()))
        for crate in ('sv-parser', 'sv-parser-pp', 'sv-parser-error', 'sv-parser-syntaxtree', 'sv-parser-macros'):
            if found.get(crate):
                notes.append('crate %s has static state: %s' % (crate, found[crate][:4]))
        pp = found.get('sv-parser-parser', [])
        names_found = set()
        for item in pp:
            m2 = re.search(r'static\s+(?:mut\s+)?([A-Z_][A-Z0-9_]*)', item)
            if m2:
                names_found.add(m2.group(1))
            elif 'storage!' in item:
                names_found.add('PACKRAT_STORAGE')
            elif 'thread_local!' in item:
                pass      # its static is matched on the next line
            else:
                names_found.add(item)
        expected = {'PACKRAT_STORAGE', 'IN_DIRECTIVE', 'CURRENT_VERSION'}
        if names_found != expected:
            notes.append('sv-parser-parser has global state %s, the check models %s: %s' % (sorted(names_found), sorted(expected), pp))
        # nom_recursive::RECURSIVE_STORAGE is never reset; its only observable effect is assert!(index < 128)
        n_rec = 0
        names = set()
        for p in glob.glob(os.path.join(root, 'sv-parser-parser', 'src', '**', '*.rs'), recursive=True):
            if p.endswith('tests.rs'):
                continue
            src = open(p, encoding='utf-8').read()
            for m in re.finditer(r'#\[recursive_parser\](?:\s*#\[[^\]]*\])*\s*pub(?:\([^)]*\))?\s+fn\s+(\w+)', src):
                names.add(m.group(1))
        # capacity of the flag table = 64 * RECURSIVE_FLAG_WORDS, selected by the cargo features of nom-recursive that the
        # workspace enables (features unify over the crates of one build): none 64, tracer128 128, tracer256 256
        feats = set()
        for p in glob.glob(os.path.join(root, '*', 'Cargo.toml')):
            for m in re.finditer(r'^nom-recursive\s*=\s*(.*)$', open(p, encoding='utf-8').read(), re.M):
                feats.update(re.findall(r'"(tracer\d+)"', m.group(1)))
            for m in re.finditer(r'\[(?:[\w.-]*dependencies)\.nom-recursive\]([^\[]*)', open(p, encoding='utf-8').read()):
                feats.update(re.findall(r'"(tracer\d+)"', m.group(1)))
        capacity = 256 if 'tracer256' in feats else 128 if 'tracer128' in feats else 64
        if len(names) > capacity:
            notes.append('%d distinct #[recursive_parser] functions but nom_recursive (features %s) asserts index < %d: the table is per thread and never reset, so a call '
                         'panics once earlier calls on the thread have entered %d other left-recursive rules' % (len(names), sorted(feats) or 'none', capacity, capacity))
        out = {'family': 'statics', 'label': 'statics', 'text': 'static items: %s; recursive parsers: %d' % ({k: len(v) for k, v in found.items()}, len(names)),
               'real_paths': 1, 'ref_paths': 0, 'pairs': 1, 'queries': 0, 'solver_s': 0, 'steps': 0, 'models': {}, 'cex': [], 'obligations': [],
               'case': {'statics': found, 'recursive_parsers': len(names), 'recursive_capacity': capacity}}
        for n in notes:
            out['cex'].append({'kind': 'state', 'note': n, 'model': None, 'status': 'reproduced', 'role': 'statics'})
        out['wall'] = round(time.time() - t0, 2)
        return out
    return Case('statics', work)


def public_entries():
    """public functions of the parser crate root that take a Span: every way into the grammar from outside the crate"""
    known = {'sv_parser': 'source_text', 'sv_parser_incomplete': 'source_text_incomplete', 'lib_parser': 'library_text',
             'lib_parser_incomplete': 'library_text_incomplete', 'pp_parser': 'preprocessor_text'}
    out = dict(known)
    try:
        src = open(os.path.join(build.SNAP, 'sv-parser-parser', 'src', 'lib.rs'), encoding='utf-8').read()
        src = re.sub(r'//[^\n]*', '', src)
        for m in re.finditer(r'\bpub\s+fn\s+(\w+)\s*(?:<[^>]*>)?\s*\(\s*(?:mut\s+)?\w+\s*:\s*Span\b', src):
            out.setdefault(m.group(1), None)
    except OSError:
        pass
    return sorted(out.items())


def families(args):
    cases = [init_case(), statics_case()]
    for name, inner in public_entries():
        cases.append(entry_case(name, inner))
    return [ppprop.Family('history-independence', cases, None, ('state',), custom_work=lambda c: c.fn())]


def main():
    args = proprun.parse_args(PID)
    return ppprop.run(PID, 'model_checking', families, args,
                      rule='init-step: every prior thread state within the bound (4 x 4 x 4 depths, 9 top selectors) through the real init() MIR; entry-points: each public parser entry (the pub fn(Span) items of sv-parser-parser/src/lib.rs, read from the source on every run) from every such state with '
                           'the grammar function stubbed; statics: enumeration of static/thread_local items of the five crates + count of #[recursive_parser] functions',
                      bounds={'tier': args.tier, 'stack depths': '0..3', 'memo entries': '0..3'},
                      outside=['stacks deeper than 3 (Vec::clear / PackratStorage::clear are length-independent)', 'HashMap iteration order of returned tables', 'scope pairing inside one call (checked by C12)'],
                      assumptions=['rustc nightly MIR', 'LocalKey::with / RefCell::borrow_mut / Vec::clear / PackratStorage::clear modelled (single-thread cell semantics)',
                                   'nom_recursive::RECURSIVE_STORAGE only grows; observable only through assert!(index < 128)'],
                      sample_sym='dir_depth, ver_depth, memo_entries, top_version, inner_ok')


if __name__ == '__main__':
    sys.exit(main())
