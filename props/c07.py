"""C07  Results depend only on the arguments, not on what the thread did before.

One inductive step instead of call histories: for an ARBITRARY prior state of the parser's
thread-locals (directive stack and keyword-version stack of depth 0..3 with symbolic content, memo
table empty/non-empty) the real init() (MIR) re-establishes the initial state, and each public parser
entry point calls init() before any grammar function.  All static / thread_local items of the five
crates are enumerated from the sources: the preprocessor, the API wrappers and the syntax tree have none."""
import sys, os, re, glob, time
import z3
import engine as E
import proprun, ppprop
import gengine as G
from engine import Ref, Struct, Enum, Tup, VecV, Opaque, UNIT
from interp import Explorer, Inconclusive, RustPanic
from models import Models, ok, err, deref
import build

PID = 'C07'
VERSIONS = ['Ieee1364_1995', 'Ieee1364_2001', 'Ieee1364_2001Noconfig', 'Ieee1364_2005', 'Ieee1800_2005', 'Ieee1800_2009', 'Ieee1800_2012', 'Ieee1800_2017', 'Directive']


class Case:
    def __init__(self, label, fn):
        self.label, self.fn = label, fn


def sym_prestate(it):
    """arbitrary prior thread state (bounded): depths chosen by the solver, top version symbolic"""
    d = z3.Int('dir_depth')
    v = z3.Int('ver_depth')
    m = z3.Int('memo_entries')
    top = z3.Int('top_version')
    it.assume(z3.And(d >= 0, d <= 3, v >= 0, v <= 3, m >= 0, m <= 3, top >= 0, top < 9))
    dk = it.choose([d == i for i in range(4)], 'dir_depth')
    vk = it.choose([v == i for i in range(4)], 'ver_depth')
    mk = it.choose([m == i for i in range(4)], 'memo')
    tk = it.choose([top == i for i in range(9)], 'top_version') if vk > 0 else 0
    vers = [Enum('Version', VERSIONS[(tk + i) % 9], (tk + i) % 9, []) for i in range(vk)]
    vers.reverse()
    return {'IN_DIRECTIVE': Struct('RefCell', [VecV([UNIT for _ in range(dk)])]),
            'CURRENT_VERSION': Struct('RefCell', [VecV(vers)]),
            'PACKRAT_STORAGE': Struct('RefCell', [Opaque('PackratStorage', {'entries': mk})])}


def is_initial(tls):
    return (len(tls['IN_DIRECTIVE'].fields[0].fields) == 0 and len(tls['CURRENT_VERSION'].fields[0].fields) == 0 and
            tls['PACKRAT_STORAGE'].fields[0].data['entries'] == 0)


def run_paths(body, max_paths=2000):
    mdl = Models()
    G.install(mdl, None)
    ex = Explorer(E.prog(), mdl, body, max_paths=max_paths)
    res = ex.run()
    ex.models_used = dict(mdl.called)
    return res, ex


def mk_out(fam, label, text, res, ex, t0, notes_of):
    out = {'family': fam, 'label': label, 'text': text, 'real_paths': len(res), 'ref_paths': 0, 'pairs': len(res), 'queries': ex.solver_checks,
           'solver_s': ex.solver_time, 'steps': ex.steps, 'models': ex.models_used, 'cex': [], 'obligations': [], 'case': {'case': label}}
    seen = set()
    for r in res:
        if r.outcome == 'panic':
            out['cex'].append({'kind': 'state', 'note': '%s panics: %s' % (label, r.panic['msg']), 'model': r.model, 'status': 'reproduced', 'role': 'panic:' + label})
            continue
        for n in notes_of(r):
            if n in seen:
                continue
            seen.add(n)
            out['cex'].append({'kind': 'state', 'note': n, 'model': r.model, 'status': 'reproduced', 'role': 'state:' + label})
    out['wall'] = round(time.time() - t0, 2)
    return out


def init_case():
    def work():
        t0 = time.time()
        f_init = E.fn('init', lambda e: len(e.argnorm) == 0 and e.mf.crate == 'sv-parser-parser')

        def body(it):
            it.env['g'] = G.GState()
            it.env['const_hook'] = G.const_hook_tls
            it.env['tls'] = {'IN_DIRECTIVE': None, 'CURRENT_VERSION': None, 'PACKRAT_STORAGE': None}
            it.env['tls'] = sym_prestate(it)
            it.run_func(f_init, [])
            tls = it.env['tls']
            notes = []
            if not is_initial(tls):
                notes.append('init() leaves state directive=%d version=%d memo=%d' % (len(tls['IN_DIRECTIVE'].fields[0].fields),
                             len(tls['CURRENT_VERSION'].fields[0].fields), tls['PACKRAT_STORAGE'].fields[0].data['entries']))
            touched = it.env.get('tls_touched', set())
            if touched != {'IN_DIRECTIVE', 'CURRENT_VERSION', 'PACKRAT_STORAGE'}:
                notes.append('init() touches %s' % sorted(touched))
            return notes
        res, ex = run_paths(body)
        return mk_out('init-step', 'init', 'prior state: directive depth 0..3, version depth 0..3 (top of 9 selectors), memo entries 0..3', res, ex, t0, lambda r: r.value or [])
    return Case('init', work)


def entry_case(name, inner):
    def work():
        t0 = time.time()
        f = E.fn(name, lambda e: e.mf.crate == 'sv-parser-parser' and e.argnorm == ['LocatedSpan'])

        def body(it):
            it.env['g'] = G.GState()
            it.env['const_hook'] = G.const_hook_tls
            it.env['tls'] = {'IN_DIRECTIVE': None, 'CURRENT_VERSION': None, 'PACKRAT_STORAGE': None}
            it.env['tls'] = sym_prestate(it)
            seen = {}

            def hook(it2, pname, path, sp, dest_ty):
                seen.setdefault('calls', []).append((pname, is_initial(it2.env['tls']), sp.data['off']))
                return ok(Tup([G.span(sp.data['off'] + 1), Opaque('TREE', pname)])) if it2.decide(z3.Bool('inner_ok'), 'inner_ok') else G.nom_error(it2, sp)
            it.env['production_hook'] = hook
            mdl = it.models
            sp = G.span(0)
            r = it.concretize(it.run_func(f, [sp]))
            notes = []
            calls = seen.get('calls', [])
            if [c[0] for c in calls] != [inner]:
                notes.append('%s calls %r (expected exactly %s)' % (name, [c[0] for c in calls], inner))
            elif not calls[0][1]:
                notes.append('%s runs %s on a thread state that is not the initial one' % (name, inner))
            elif calls[0][2] != 0:
                notes.append('%s does not hand its input span to %s' % (name, inner))
            if r.variant == 'Ok' and not (type(r.fields[0].fields[1]) is Opaque and r.fields[0].fields[1].data == inner):
                notes.append('%s does not return the result of %s' % (name, inner))
            return notes
        mdl = Models()
        G.install(mdl, {inner})
        ex = Explorer(E.prog(), mdl, body, max_paths=3000)
        res = ex.run()
        ex.models_used = dict(mdl.called)
        return mk_out('entry-points', name, 'arbitrary prior state; grammar function stubbed (Ok/Err symbolic)', res, ex, t0, lambda r: r.value or [])
    return Case('entry/' + name, work)


def statics_case():
    def work():
        t0 = time.time()
        root = build.SNAP
        notes = []
        found = {}
        # mutable global state: static mut, statics with interior mutability, thread_local!, lazy_static!, nom_packrat::storage!
        pat = re.compile(r'\b(static\s+mut\s+[A-Z_][A-Z0-9_]*\s*:|static\s+[A-Z_][A-Z0-9_]*\s*:[^=;]*\b(?:Mutex|RwLock|RefCell|Cell|Atomic\w*|OnceCell|OnceLock|Lazy)\b|thread_local!|lazy_static!|storage!\s*\()')
        for crate in ('sv-parser', 'sv-parser-pp', 'sv-parser-error', 'sv-parser-syntaxtree', 'sv-parser-macros', 'sv-parser-parser'):
            for p in glob.glob(os.path.join(root, crate, '**', '*.rs'), recursive=True):
                if p.endswith('tests.rs') or '/benches/' in p or '/examples/' in p or p.endswith('build.rs'):
                    continue
                src = open(p, encoding='utf-8').read()
                src = re.sub(r'//[^\n]*', '', src)
                for m in pat.finditer(src):
                    line = src[:m.start()].count('\n') + 1
                    found.setdefault(crate, []).append('%s:%d %s' % (os.path.relpath(p, root), line, m.group(0).strip()))
        for crate in ('sv-parser', 'sv-parser-pp', 'sv-parser-error', 'sv-parser-syntaxtree', 'sv-parser-macros'):
            if found.get(crate):
                notes.append('crate %s has static state: %s' % (crate, found[crate][:4]))
        pp = found.get('sv-parser-parser', [])
        names_found = set()
        for item in pp:
            m2 = re.search(r'static\s+(?:mut\s+)?([A-Z_][A-Z0-9_]*)', item)
            if m2:
                names_found.add(m2.group(1))
            elif 'storage!' in item:
                names_found.add('PACKRAT_STORAGE')
            elif 'thread_local!' in item:
                pass      # its static is matched on the next line
            else:
                names_found.add(item)
        expected = {'PACKRAT_STORAGE', 'IN_DIRECTIVE', 'CURRENT_VERSION'}
        if names_found != expected:
            notes.append('sv-parser-parser has global state %s, the check models %s: %s' % (sorted(names_found), sorted(expected), pp))
        # nom_recursive::RECURSIVE_STORAGE is never reset; its only observable effect is assert!(index < 128)
        n_rec = 0
        names = set()
        for p in glob.glob(os.path.join(root, 'sv-parser-parser', 'src', '**', '*.rs'), recursive=True):
            if p.endswith('tests.rs'):
                continue
            src = open(p, encoding='utf-8').read()
            for m in re.finditer(r'#\[recursive_parser\](?:\s*#\[[^\]]*\])*\s*pub(?:\([^)]*\))?\s+fn\s+(\w+)', src):
                names.add(m.group(1))
        if len(names) > 128:
            notes.append('%d distinct #[recursive_parser] functions: nom_recursive asserts index < 128' % len(names))
        out = {'family': 'statics', 'label': 'statics', 'text': 'static items: %s; recursive parsers: %d' % ({k: len(v) for k, v in found.items()}, len(names)),
               'real_paths': 1, 'ref_paths': 0, 'pairs': 1, 'queries': 0, 'solver_s': 0, 'steps': 0, 'models': {}, 'cex': [], 'obligations': [],
               'case': {'statics': found, 'recursive_parsers': len(names)}}
        for n in notes:
            out['cex'].append({'kind': 'state', 'note': n, 'model': None, 'status': 'reproduced', 'role': 'statics'})
        out['wall'] = round(time.time() - t0, 2)
        return out
    return Case('statics', work)


def families(args):
    cases = [init_case(), statics_case()]
    for name, inner in (('sv_parser', 'source_text'), ('sv_parser_incomplete', 'source_text_incomplete'), ('lib_parser', 'library_text'),
                        ('lib_parser_incomplete', 'library_text_incomplete'), ('pp_parser', 'preprocessor_text')):
        cases.append(entry_case(name, inner))
    return [ppprop.Family('history-independence', cases, None, ('state',), custom_work=lambda c: c.fn())]


def main():
    args = proprun.parse_args(PID)
    return ppprop.run(PID, 'model_checking', families, args,
                      rule='init-step: every prior thread state within the bound (4 x 4 x 4 depths, 9 top selectors) through the real init() MIR; entry-points: each public parser entry from every such state with '
                           'the grammar function stubbed; statics: enumeration of static/thread_local items of the five crates + count of #[recursive_parser] functions',
                      bounds={'tier': args.tier, 'stack depths': '0..3', 'memo entries': '0..3'},
                      outside=['stacks deeper than 3 (Vec::clear / PackratStorage::clear are length-independent)', 'HashMap iteration order of returned tables', 'scope pairing inside one call (checked by C12)'],
                      assumptions=['rustc nightly MIR', 'LocalKey::with / RefCell::borrow_mut / Vec::clear / PackratStorage::clear modelled (single-thread cell semantics)',
                                   'nom_recursive::RECURSIVE_STORAGE only grows; observable only through assert!(index < 128)'],
                      sample_sym='dir_depth, ver_depth, memo_entries, top_version, inner_ok')


if __name__ == '__main__':
    sys.exit(main())
