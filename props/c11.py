"""C11  Returned define table is exact and threads across files as one unit."""
import sys, time
import z3
import engine as E
import ppsuite, ppref, ppfamily, proprun, ppprop
from engine import PPCase, Ref, PathV, VecV
from interp import Explorer, Inconclusive
from models import Models

PID = 'C11'


def mk_case(pg):
    text = ppref.render(pg.items)
    sym = {n: ppfamily.ALT_BODIES[n] for n in pg.names}
    return PPCase(text, path='top.sv', sym_defines=sym, strip='sym', label=pg.label)


class Pair:
    def __init__(self, a, b):
        self.a, self.b = a, b
        self.label = 'thread/%s+%s' % (a.label, b.label)


def thread_work(pair):
    """f1 then f2 with f1's returned table  ==  f1++f2 (texts; tables modulo positions)"""
    import copy
    P = E.prog()
    f_str = E.fn('preprocess_str')
    ta = ppref.render(copy.deepcopy(pair.a.items))
    tb = ppref.render(copy.deepcopy(pair.b.items))
    names = sorted(set(pair.a.names) | set(pair.b.names))
    case = PPCase(ta + tb, path='top.sv', sym_defines={n: ppfamily.ALT_BODIES[n] for n in names}, strip=False, label=pair.label)
    t0 = time.time()

    def run(it, text, table):
        incs = Ref([VecV([])], 0)
        r = it.run_func(f_str, [text, PathV('top.sv'), Ref([table], 0), incs, False, False, 0, 0])
        return it.concretize(r)

    def body(it):
        it.env['native'] = E.native()
        it.env['format_hook'] = E.models_pp.format_hook
        it.env['fs'] = E.make_fs(case)
        t0_, info = E.make_table(it, case)
        t1_, _ = E.make_table(it, case)
        r1 = run(it, ta, t0_)
        if r1.variant != 'Ok':
            return {'skip': 'first file fails'}
        tab1 = r1.fields[0].fields[1]
        r2 = run(it, tb, tab1)
        r12 = run(it, ta + tb, t1_)
        out = {}
        if r2.variant != r12.variant:
            return {'bad': 'second run %s but concatenated run %s' % (r2.variant, r12.variant)}
        if r2.variant != 'Ok':
            e2, e12 = E.error_py(r2.fields[0]), E.error_py(r12.fields[0])
            if e2.get('variant') != e12.get('variant') or e2.get('name') != e12.get('name'):
                return {'bad': 'errors differ: %r vs %r' % (e2, e12)}
            return {'ok': True}
        x1 = r1.fields[0].fields[0].fields[0].s
        x2 = r2.fields[0].fields[0].fields[0].s
        x12 = r12.fields[0].fields[0].fields[0].s
        if x1 + x2 != x12:
            return {'bad': 'texts differ: %r + %r vs %r' % (x1, x2, x12)}
        tA = E.table_py(r2.fields[0].fields[1])
        tB = E.table_py(r12.fields[0].fields[1])
        conds = []
        notes = []
        for n in sorted(set(tA) | set(tB)):
            if n.startswith('SV_COV_'):
                continue
            pa = tA.get(n, (False, None))[0]
            pb = tB.get(n, (False, None))[0]
            za = pa if not isinstance(pa, bool) else z3.BoolVal(pa)
            zb = pb if not isinstance(pb, bool) else z3.BoolVal(pb)
            c = z3.simplify(z3.Xor(za, zb))
            if not z3.is_false(c):
                conds.append(c)
                notes.append('presence of %s' % n)
            if pa is not False and pb is not False:
                va, vb = tA[n][1], tB[n][1]
                strip_pos = lambda v: None if v is None else ({k: x for k, x in v.items() if k != 'origin'} if 'choice' not in v else str(v))
                if strip_pos(va) != strip_pos(vb):
                    conds.append(z3.And(za, zb))
                    notes.append('value of %s: %r vs %r' % (n, va, vb))
        if conds and it.feasible(z3.Or(conds)):
            return {'bad': 'final tables differ (%s)' % '; '.join(notes), 'model': it.model_for(z3.Or(conds))}
        return {'ok': True}
    mdl = Models()
    ex = Explorer(P, mdl, body, max_paths=300)
    res = ex.run()
    if ex.truncated:
        raise Inconclusive('path budget: %s' % pair.label)
    out = {'family': 'threading', 'label': pair.label, 'text': ta + '<<<|>>>' + tb, 'real_paths': len(res), 'ref_paths': 0, 'pairs': len(res),
           'queries': ex.solver_checks, 'solver_s': ex.solver_time, 'steps': ex.steps, 'models': dict(mdl.called), 'cex': [],
           'obligations': [], 'case': case.describe()}
    for r in res:
        if r.outcome == 'panic':
            out['cex'].append({'kind': 'panic', 'note': r.panic['msg'], 'model': r.model, 'status': 'reproduced', 'role': 'panic:' + pair.label})
            continue
        v = r.value
        if v.get('bad'):
            model = v.get('model') or r.model
            # native replay: run the three calls natively
            conc = E.concrete_assignment(case, model)
            nat = E.native()
            q = {'cmd': 'preprocess', 'mode': 'str', 'path': 'top.sv', 'defines': E.defines_req(conc['defines'])}
            n1 = nat.request(dict(q, text=ta), cache=False)
            ok = False
            detail = None
            if n1.get('ok'):
                d1 = {k: v2 for k, v2 in n1['defines'].items()}
                n2 = nat.request(dict(q, text=tb, defines=d1), cache=False)
                n12 = nat.request(dict(q, text=ta + tb), cache=False)
                def tabkey(d):
                    return {k: (None if v2 is None else (v2['identifier'], v2['args'], v2['text'])) for k, v2 in d.items()}
                if n2.get('ok') != n12.get('ok'):
                    ok = True
                elif n2.get('ok'):
                    ok = (n1['text'] + n2['text'] != n12['text']) or tabkey(n2['defines']) != tabkey(n12['defines'])
                detail = {'second': n2.get('text'), 'concat': n12.get('text')}
            out['cex'].append({'kind': 'table', 'note': v['bad'], 'model': model, 'status': 'reproduced' if ok else 'not_reproduced',
                               'role': 'threading:' + pair.label, 'native': detail})
    out['wall'] = round(time.time() - t0, 2)
    return out


def families(args):
    progs = ppfamily.table_programs(args.tier, args.seed) + ppfamily.cond_programs('quick', args.seed)[::6 if args.tier == 'quick' else 2]
    fam = ppprop.Family('returned-table', progs, mk_case, ('table',),
                        quirk_roles=[(('elsif_predefined_uses_ifid',), 'F3:elsif-predefined-test-uses-first-identifier', ('tokens', 'table'))])
    tp = [p for p in ppfamily.table_programs(args.tier, args.seed)]
    pairs = []
    firsts = [p for p in tp if p.label in ('table/def-plain', 'table/redefine', 'table/undef-caller', 'table/undefineall', 'table/undefineall-redefine',
                                           'table/def-in-dead', 'table/undef-via-macro', 'table/def-via-macro')]
    seconds = [p for p in tp if p.label in ('table/def-in-dead', 'table/undef-in-dead', 'table/redefine', 'table/undefineall-redefine', 'table/undef-via-macro')]
    seconds += [p for p in ppfamily.cond_programs('quick', 0) if p.label.startswith(('effect/defB/ifdef/branch0', 'use/ifdef'))]
    for a in firsts:
        for b in seconds:
            pairs.append(Pair(a, b))
    if args.tier == 'quick':
        pairs = pairs[::2]
    fam2 = ppprop.Family('threading', pairs, None, ('table',), custom_work=thread_work)
    # body texts that look like comments to a careless scanner (`//` inside a string, a trailing line comment, a continuation),
    # recorded under strip_comments = true / false alike (function-like macros: text-level reference expander of C05)
    import c05
    mprogs = [p for p in ppfamily.macro_programs(args.tier, args.seed) if p.label.split('/')[1] in ('string-with-slashes', 'body-line-comment', 'continuation', 'args-defaults')]
    fam3 = ppprop.Family('returned-table/comment-like-bodies', mprogs, mk_case, ('table',), evalfn=c05.evalfn)
    return [fam, fam2, fam3]


def main():
    args = proprun.parse_args(PID)
    return ppprop.run(PID, 'model_checking', families, args,
                      rule='returned-table: abstract programs with define/undef/undefineall/redefinition (directly, in dead branches, through macro bodies), initial table symbolic; '
                           'the returned table (presence as z3 terms, formals, defaults, body text, body range) is compared with the reference table on every feasible intersection. '
                           'threading: pairs (f1,f2): the real code is run on f1, on f2 with the table returned for f1, and on f1++f2 inside one symbolic execution',
                      bounds={'tier': args.tier, 'names': 'A,B symbolic (absent | no body | body)', 'pairs': 'files end with a newline outside conditionals'},
                      outside=['SV_COV_* constants (excluded by the statement)', 'longer file sequences than pairs', 'HashMap iteration order'],
                      assumptions=ppprop.STD_ASSUMPTIONS, sample_sym='def_A, def_B, alt_A_0, alt_B_0, strip_comments')


if __name__ == '__main__':
    sys.exit(main())
