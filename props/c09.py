"""C09  Recursion is bounded: cycles end in ExceedRecursiveLimit, legal depths work."""
import sys
import engine as E
import ppsuite, ppref, ppfamily, proprun, ppprop
from engine import PPCase

PID = 'C09'


def mk_case(pg):
    text = ppref.render(pg.items)
    files = {}
    for p, items in pg.files.items():
        files[p] = {'contents': [ppref.render(items)], 'exists': pg.exists.get(p, True)}
    sym = {n: ppfamily.ALT_BODIES[n] for n in pg.names}
    return PPCase(text, path='top.sv', sym_defines=sym, files=files, include_paths=(), strip=getattr(pg, 'strip', False), ignore=False,
                  resolve_depth=pg.rd, include_depth=pg.idp, label=pg.label)


def role_fn(pg, mm, nat):
    if mm['kind'] == 'panic' and 'macro-include' in pg.label:
        return 'F6:macro-expansion-resets-include-depth'
    return None


ARG_LABELS = ('depth/arg', 'depth/default', 'cycle/macro-through', 'chain/macro-args')


def text_evalfn(st, items, file, strip, ign):
    # function-like macros: the text-level reference expander of C05, with the depth threaded through every rescan
    ppref.ref_eval(st, items, file, None, strip, ppref.text_expander, ign, st.include_paths)


def families(args):
    allp = ppfamily.depth_programs(args.tier, args.seed)
    progs = [p for p in allp if not p.label.startswith(ARG_LABELS)]
    fam = ppprop.Family('depths-and-cycles', progs, mk_case, ('tokens',), max_paths=600, role_fn=role_fn,
                        quirk_roles=[(('macro_expansion_resets_include_depth',), 'F6:macro-expansion-resets-include-depth', ('tokens',))])
    fam2 = ppprop.Family('depths-through-arguments', [p for p in allp if p.label.startswith(ARG_LABELS)], mk_case, ('tokens',), evalfn=text_evalfn, max_paths=600)
    return [fam, fam2]


def main():
    args = proprun.parse_args(PID)
    return ppprop.run(PID, 'model_checking', families, args,
                      rule='depth programs: resolve_depth / include_depth are unbounded z3 Ints (0..2^64-1) on entry; for every recursion edge (usage->expansion, usage handed on through an actual argument or a default value, include->file, '
                           'macro-named include, include inside an expansion) the real MIR and the reference (limit 64, one Include wrapper per include level) must agree for every '
                           'depth value; cycles and 64/65-deep chains are run with concrete start depth 0',
                      bounds={'tier': args.tier, 'depths': 'symbolic, 0..2^62 (the counters are started at 0 by every public wrapper; values next to usize::MAX are outside the claim)', 'chain length in symbolic cases': '<= 3', 'concrete chains': '64 and 65 (macro texts, includes, usages nested through actual arguments)'},
                      outside=['cycle shapes outside the family (the step obligations cover every recursion edge of preprocess.rs)'],
                      assumptions=ppprop.STD_ASSUMPTIONS, sample_sym='resolve_depth, include_depth (Int), def_A')


if __name__ == '__main__':
    sys.exit(main())
