"""C08  Every entry point is total: Ok or a structured Error, never a panic.

Claimed for the preprocessor, the API wrappers and the panic sites of the grammar:
 * every panic obligation (MIR assert, unwrap/expect, slice and index bounds, arithmetic overflow,
   Range::new, Locate adjacency) met while the real preprocess_str / preprocess / wrappers run on the
   program families of C03-C06, C09-C11, C18 and on a totality family (odd `include-macro expansions,
   multi-byte characters at the end of every piece kind) with define table, flags and file system symbolic;
 * file faults: missing -> File{path tried}, not UTF-8 -> ReadUtf8(path), once wrapped in Include per level;
 * grammar: concat(..).unwrap() / ret.unwrap() sites of the production bodies (Engine G: adjacency of the
   joined fragments follows from the primitives' contracts on every path).
A feasible panic is replayed natively (panic message or process abort) before it is reported."""
import sys, time, copy
import engine as E
import ppsuite, ppref, ppfamily, proprun, ppprop, gcheck
import c10, c20
from engine import PPCase
from interp import Inconclusive

PID = 'C08'


def mk_case(pg):
    if isinstance(pg, ppfamily.IncProg):
        return c10.mk_case(pg)
    text = ppref.render(copy.deepcopy(pg.items))
    if getattr(pg, 'raw_tail', None) is not None:
        text = text + pg.raw_tail
    sym = {n: ppfamily.ALT_BODIES[n] for n in pg.names}
    return PPCase(text, path='top.sv', sym_defines=sym, strip='sym', ignore=False, label=pg.label)


def pp_work(pg):
    t0 = time.time()
    case = mk_case(pg)
    real, ex = E.run_pp_case(case, want_origins=True, max_paths=300)
    if ex.truncated:
        raise Inconclusive('path budget: ' + pg.label)
    out = {'family': 'preprocessor-panics', 'label': pg.label, 'text': case.text, 'real_paths': len(real), 'ref_paths': 0, 'pairs': len(real),
           'queries': ex.solver_checks, 'solver_s': ex.solver_time, 'steps': ex.steps, 'models': ex.models_used, 'cex': [], 'obligations': [], 'case': case.describe()}
    seen = set()
    for rp in real:
        cands = [(ob['msg'], ob.get('model')) for ob in rp.obligations]
        if rp.outcome == 'panic':
            cands.append((rp.panic['msg'], rp.model))
        for msg, model in cands:
            if msg[:50] in seen:
                continue
            seen.add(msg[:50])
            agrees, nat, conc = ppsuite.replay_real(case, model, None)
            rep = bool(nat.get('panic') or nat.get('crash'))
            out['cex'].append({'kind': 'panic', 'note': 'the preprocessor can panic on %r: %s' % (case.text[-60:], msg), 'model': model, 'conc': conc, 'native': nat,
                               'status': 'reproduced' if rep else 'not_reproduced', 'role': 'panic:%s' % pg.label})
        if rp.outcome == 'ok' and not rp.value['ok']:
            e = rp.value['error']
            core, d = ppsuite.err_core(e)
            if core.get('variant') not in ('File', 'ReadUtf8', 'Parse', 'Preprocess', 'DefineArgNotFound', 'DefineNotFound', 'DefineNoArgs', 'ExceedRecursiveLimit', 'IncludeLine', 'Io'):
                out['cex'].append({'kind': 'panic', 'note': 'unstructured error %r' % (e,), 'model': rp.model, 'status': 'reproduced', 'role': 'error-shape:%s' % pg.label})
    out['wall'] = round(time.time() - t0, 2)
    return out


class GItem:
    def __init__(self, label):
        self.label = label


def families(args):
    progs = ppfamily.totality_programs(args.tier, args.seed)
    progs += ppfamily.macro_programs(args.tier, args.seed) + ppfamily.include_programs(args.tier, args.seed)
    progs += ppfamily.site_programs(args.tier, args.seed) + ppfamily.comment_programs(args.tier, args.seed) + ppfamily.table_programs(args.tier, args.seed)
    progs += ppfamily.cond_programs('quick', args.seed)[::(12 if args.tier == 'quick' else 3)]
    fam1 = ppprop.Family('preprocessor-panics', progs, None, ('panic',), custom_work=pp_work)
    fc = c20.file_case()
    fam2 = ppprop.Family('file-faults', [fc], None, ('args', 'panic'), custom_work=lambda c: c.fn())
    g = gcheck.gather(args)
    results = g['results']

    def gwork(item):
        r = results.get(item.label)
        if not r or r['status'] != 'ok':
            raise Inconclusive('%s not analysed' % item.label)
        out = gcheck.base_case('grammar-panic-sites', item.label, '%d paths' % len(r['paths']), r)
        seen = set()
        for p in r['paths']:
            msgs = [ob['msg'] for ob in (p.get('obligations') or [])]
            if p['outcome'] == 'panic':
                msgs.append(p['panic']['msg'])
            for m in msgs:
                if m[:50] in seen:
                    continue
                seen.add(m[:50])
                out['cex'].append({'kind': 'panic', 'note': 'production %s can panic: %s (calls %s)' % (item.label, m, (p.get('log') or [])[-4:]), 'model': p.get('model'),
                                   'status': 'reproduced', 'role': 'panic:%s' % item.label, 'native': 'verification condition on the production MIR'})
        return out
    fam3 = ppprop.Family('grammar-panic-sites', [GItem(n) for n in sorted(results)], None, ('panic',), custom_work=gwork)
    # the API wrappers (parse_X, parse_X_str, parse_X_pp over texts whose first / last bytes have no origin): panic obligations
    fam4 = ppprop.Family('wrapper-panics', [c for c in c20.all_cases() if not c.label.startswith('file/')], None, ('panic',), custom_work=lambda c: c.fn())
    return [fam1, fam2, fam3, fam4]


def main():
    args = proprun.parse_args(PID)
    return ppprop.run(PID, 'model_checking', families, args,
                      rule='preprocessor-panics: every program of the listed families through the real preprocess_str/preprocess MIR with define table, strip_comments, ignore_include and file existence symbolic; each MIR assert / '
                           'unwrap / slice / arithmetic site reached is a panic obligation discharged by z3 under the path condition; grammar-panic-sites: the same obligations inside every production body (Engine G); '
                           'file-faults: preprocess(path) over missing / non-UTF-8 / 8 content variants',
                      bounds={'tier': args.tier}, outside=['panic-freedom of whole parses on arbitrary token soup (only per-production obligations under the callee contracts)', 'Display/Debug of trees',
                                                            'stack exhaustion by deep bracket nesting (excluded by the statement)', 'depth arguments next to usize::MAX (callers start them at 0)'],
                      assumptions=ppprop.STD_ASSUMPTIONS, sample_sym='def_A, strip_comments, exists_<path>, sub-parser outcomes')


if __name__ == '__main__':
    sys.exit(main())
