"""C10  `include splices the named file with defines flowing in and out."""
import sys, copy
import engine as E
import ppsuite, ppref, ppfamily, proprun, ppprop
from engine import PPCase

PID = 'C10'


def mk_case(pg):
    text = ppref.render(pg.items)
    files = {}
    for p, items in pg.files.items():
        content = ppref.render(items)
        ex = pg.exists.get(p, 'sym')
        files[p] = {'contents': [None] if p in pg.invalid else [content], 'exists': ex}
    sym = {n: ppfamily.ALT_BODIES[n] for n in pg.names}
    return PPCase(text, path=getattr(pg, 'top_path', 'top.sv'), sym_defines=sym, files=files, include_paths=pg.include_paths, strip=getattr(pg, 'strip', 'sym'),
                  ignore=pg.ignore, label=pg.label)


def role_fn(pg, mm, nat):
    return None


def families(args):
    progs = ppfamily.include_programs(args.tier, args.seed)
    fam = ppprop.Family('include-graphs', progs, mk_case, ('tokens', 'table', 'opened', 'origin'), want_origins=True,
                        quirk_roles=[(('include_line_uses_piece_start',), 'F8:include-line-check-uses-first-line-of-text-run', ('tokens',)),
                                     (('macro_named_include_drops_trailing_ws',), 'F11:macro-named-include-drops-the-white-space-after-it', ('tokens',))])
    return [fam]


def main():
    args = proprun.parse_args(PID)
    return ppprop.run(PID, 'model_checking', families, args,
                      rule='one case per include program (search order, both quoting styles, macro-named file, nesting, same file twice, defines flowing in/out, '
                           'same-line rule, ignore_include, missing / non-UTF-8 files); symbolic: existence of every candidate path, initial define table, ignore_include; '
                           'compared: surviving tokens, returned table, Error variant/payload/Include nesting, list of files opened, origins',
                      bounds={'tier': args.tier, 'depth': '<= 3 include levels', 'include_paths': '<= 2, both orders'},
                      outside=['include graphs outside the family', 'symbolic link / permission faults (File::open modelled as exists/not exists)'],
                      assumptions=ppprop.STD_ASSUMPTIONS + ['file system = symbolic existence per candidate path + fixed content per path (models_pp.SymFS); Path::exists/is_relative/join/File::open/read_to_string modelled'],
                      sample_sym='exists_<path>, def_A, ignore_include')


if __name__ == '__main__':
    sys.exit(main())
