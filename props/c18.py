"""C18  strip_comments removes comments and nothing else."""
import sys, re
import z3
import engine as E
import ppsuite, ppref, ppfamily, proprun, ppprop
from engine import PPCase

PID = 'C18'


def mk_case(pg):
    text = ppref.render(pg.items)
    sym = {n: ppfamily.ALT_BODIES[n] for n in pg.names}
    return PPCase(text, path='top.sv', sym_defines=sym, strip='sym', label=pg.label)


def strip_define_lines(text):
    """remove kept `define directives (their bodies may keep comments by the statement)"""
    out = []
    for line in text.split('\n'):
        if line.lstrip().startswith('`define'):
            continue
        out.append(line)
    return '\n'.join(out)


def extra_check(pg, case, cr):
    """relational part on the real paths themselves (no reference involved):
       (1) output of a strip=true path has no comment outside kept `define lines;
       (2) for every pair (strip=true path, strip=false path) whose other conditions are compatible,
           non-comment token sequences, error and returned table agree."""
    res = []
    ex = cr.explorers[0]
    strip = z3.Bool('strip_comments')
    on, off = [], []
    for rp in ex.results:
        if rp.outcome != 'ok':
            continue
        s = z3.Solver()
        for c in rp.pc:
            s.add(c)
        s.push()
        s.add(strip)
        can_on = s.check() == z3.sat
        s.pop()
        s.add(z3.Not(strip))
        can_off = s.check() == z3.sat
        if can_on and can_off:
            continue      # path does not depend on the flag: both runs identical
        (on if can_on else off).append(rp)
    for rp in on:
        v = rp.value
        if v['ok']:
            toks = ppsuite.lex_tokens(strip_define_lines(v['text']))
            coms = [t for k, t in toks if k == 'com']
            if coms:
                res.append({'kind': 'tokens', 'note': 'strip_comments output still contains comment(s) %r: %r' % (coms, v['text']),
                            'model': rp.model, 'real': v, 'ref': None})
    def other(pc):
        return [c for c in pc if 'strip_comments' not in str(c)]
    for a in on:
        for b in off:
            m = ppsuite.joint_model(other(a.pc) + other(b.pc))
            if m is None:
                continue
            va, vb = a.value, b.value
            if va['ok'] != vb['ok']:
                res.append({'kind': 'tokens', 'note': 'with strip_comments %s, without %s' % ('Ok' if va['ok'] else va['error'], 'Ok' if vb['ok'] else vb['error']),
                            'model': dict(m, strip_comments='True'), 'real': va, 'ref': None})
                continue
            if not va['ok']:
                if ppsuite.err_core(va['error'])[0].get('variant') != ppsuite.err_core(vb['error'])[0].get('variant'):
                    res.append({'kind': 'tokens', 'note': 'errors differ: %r vs %r' % (va['error'], vb['error']), 'model': dict(m, strip_comments='True'), 'real': va, 'ref': None})
                continue
            ta = [t for k, t in ppsuite.lex_tokens(strip_define_lines(va['text'])) if k != 'com']
            tb = [t for k, t in ppsuite.lex_tokens(strip_define_lines(vb['text'])) if k != 'com']
            if ta != tb:
                res.append({'kind': 'tokens', 'note': 'non-comment tokens differ: strip %r / keep %r (texts %r / %r)' % (ta, tb, va['text'], vb['text']),
                            'model': dict(m, strip_comments='True'), 'real': va, 'ref': None})
    return res


def role_fn(pg, mm, nat):
    note = mm.get('note', '')
    return None


def families(args):
    progs = ppfamily.comment_programs(args.tier, args.seed) + ppfamily.site_programs(args.tier, args.seed)
    cp = ppfamily.cond_programs('quick', args.seed)
    progs += cp[::8 if args.tier == 'quick' else 2] + [p for p in cp if p.label.startswith('via-macro/') and p not in cp[::8 if args.tier == 'quick' else 2]]
    fam = ppprop.Family('strip-vs-keep', progs, mk_case, ('tokens', 'table'), extra_check=extra_check, role_fn=role_fn,
                        quirk_roles=[(('elsif_predefined_uses_ifid',), 'F3:elsif-predefined-test-uses-first-identifier', ('tokens', 'table')),
                                     (('cond_head_ws_dropped',), 'F14:white-space-after-conditional-head-dropped', ('tokens',))])
    # `define lines and bodies holding `//`, strings with slashes, continuations, `"-strings: kept verbatim under the flag
    # (function-like macros: text-level reference expander of C05)
    import c05
    keep = ('object-with-parens-line-comment', 'object-with-parens', 'string-with-slashes', 'body-line-comment', 'continuation', 'string-untouched', 'stringify', 'actual-string-with-ticks')
    mprogs = [p for p in ppfamily.macro_programs(args.tier, args.seed) if p.label.split('/')[1] in keep or args.tier != 'quick']
    fam2 = ppprop.Family('strip-vs-keep/define-bodies', mprogs, mk_case, ('tokens', 'table'), evalfn=c05.evalfn, extra_check=extra_check, role_fn=role_fn)
    # the flag is threaded into included files (and the other flag is not confused with it): comments inside included and
    # nested included files, as sole separators
    import c10
    from ppfamily import IncProg, T, Com, Inc
    incs = [IncProg('strip/inc-comment', [T('a', '\n'), Inc('f.svh'), T('z', '\n')], ['A'],
                    {'f.svh': [T('f0', ''), Com('/* c */', ''), T('f1', ' '), Com('// t'), T('f2', '\n')]}, exists={'f.svh': True}, include_paths=()),
            IncProg('strip/inc-nested-comment', [Com('/* top */', ' '), Inc('f.svh'), T('z', '\n')], ['A'],
                    {'f.svh': [T('f0', '\n'), Inc('g.svh'), Com('// after'), T('f1', '\n')], 'g.svh': [Com('/* g */', ''), T('g0', ''), Com('/*s*/', ''), T('g1', '\n')]},
                    exists={'f.svh': True, 'g.svh': True}, include_paths=())]
    incs += [p for p in ppfamily.include_programs(args.tier, args.seed) if p.label in ('inc/nested', 'inc/flow-in', 'inc/twice')]
    fam3 = ppprop.Family('strip-vs-keep/includes', incs, c10.mk_case, ('tokens', 'table'), extra_check=extra_check, role_fn=role_fn,
                         quirk_roles=[(('macro_named_include_drops_trailing_ws',), 'F11:macro-named-include-drops-the-white-space-after-it', ('tokens',))])
    return [fam, fam2, fam3]


def main():
    args = proprun.parse_args(PID)
    return ppprop.run(PID, 'model_checking', families, args,
                      rule='programs with comments as sole separators, next to directives and usages, inside define bodies (+ the emission-site and conditional families); strip_comments and the '
                           'define table symbolic; (a) reference cross-check of tokens/table under the flag, (b) relational check between every strip=true and strip=false path with compatible '
                           'conditions, (c) no comment token in strip=true output outside kept `define lines',
                      bounds={'tier': args.tier}, outside=['comments inside macro actual arguments (C05 family)', 'include shapes outside the five listed (the general include family is C10, with the flag symbolic)'],
                      assumptions=ppprop.STD_ASSUMPTIONS, sample_sym='strip_comments, def_A, alt_A_0')


if __name__ == '__main__':
    sys.exit(main())
