"""C12  Trivia between tokens (blanks, comments, neutral directives) never alters parse.

Engine G (modular VCs on the real MIR of every production body):
 V2 scope pairing -- on every exit path (normal, each `?`, early return) of every production the
    directive stack and the keyword-version stack are as on entry, except the designated effects
    (version_specifier / keywords_directive push one version on success, endkeywords_directive pops one);
 trivia alphabet -- the character classes of the nom primitives white_space is built from cover the
    blanks, tabs, form feeds and newlines of the statement;
 terminals -- symbol()/keyword() attach the trivia that follows them (V1 of their bodies, shared with C01).
A leak found symbolically is confirmed on the real parser through probe texts (scope depths after a parse)."""
import sys, os, re, time
import engine as E
import proprun, ppprop, gcheck, grun, gprod
from interp import Inconclusive

PID = 'C12'
NOM_CHARSETS = {'space1': ' \t', 'space0': ' \t', 'multispace1': ' \t\r\n', 'multispace0': ' \t\r\n', 'line_ending': '\r\n'}
REQUIRED_TRIVIA = {' ': 'blank', '\t': 'tab', '\x0c': 'form feed', '\n': 'newline'}


def white_space_alphabet():
    """which single characters the real white_space production accepts outside directives, decided by Engine L: the production
    body is executed from MIR on a 1-byte text whose byte is symbolic over the required trivia characters plus controls"""
    import z3
    import lexengine as L
    prods = gprod.productions(E.prog())
    alphabet = ''.join(REQUIRED_TRIVIA) + '\r\x0bx'
    res, ex, lx = L.run_lexer(('production', 'white_space'), 1, alphabet, prods)
    if ex.truncated:
        raise Inconclusive('white_space on 1-byte texts: budget exhausted')
    chars = set()
    for c in alphabet:
        for rp in res:
            if rp.outcome == 'ok' and rp.value and rp.value[0] == 'ok' and rp.value[1] == 1:
                sol = z3.Solver()
                for cnd in rp.pc:
                    sol.add(cnd)
                sol.add(lx.b[0] == ord(c))
                if sol.check() == z3.sat:
                    chars.add(c)
                    break
    return {'paths': len(res), 'queries': ex.solver_checks}, chars


class Item:
    def __init__(self, label):
        self.label = label


def families(args):
    g = gcheck.gather(args)
    results = g['results']
    E._gmeta = g

    def work(item):
        name = item.label
        if name == '@alphabet':
            prims, chars = white_space_alphabet()
            out = gcheck.base_case('trivia-alphabet', name, 'white_space accepts the 1-byte texts %r (of %r)' % (''.join(sorted(chars)), ''.join(REQUIRED_TRIVIA) + '\r\x0bx'), None)
            out['real_paths'] = out['pairs'] = prims['paths']
            out['queries'] = prims['queries']
            for c, what in REQUIRED_TRIVIA.items():
                if c not in chars:
                    nat = E.native()
                    a = nat.request({'cmd': 'parse', 'text': 'module' + c + 'm; endmodule\n', 'path': 't.sv', 'want': ['skeleton']}, cache=False)
                    b = nat.request({'cmd': 'parse', 'text': 'module m; endmodule\n', 'path': 't.sv', 'want': ['skeleton']}, cache=False)
                    rep = (a.get('ok'), a.get('skeleton')) != (b.get('ok'), b.get('skeleton'))
                    out['cex'].append({'kind': 'scope', 'note': 'white_space does not accept %s (%r): module%sm; endmodule parses %s, the blank variant %s' % (
                        what, c, c, 'Ok' if a.get('ok') else a.get('error'), 'Ok' if b.get('ok') else b.get('error')), 'model': None,
                        'status': 'reproduced' if rep else 'not_reproduced', 'role': 'F7:form-feed-not-white-space' if c == '\x0c' else 'trivia-char:%r' % c})
            for c, what in (('\x0b', 'vertical tab'),):
                if c in chars:
                    nat = E.native()
                    a = nat.request({'cmd': 'parse', 'text': 'module m;' + c + 'endmodule\n', 'path': 't.sv', 'want': ['skeleton']}, cache=False)
                    out['cex'].append({'kind': 'scope', 'note': 'white_space accepts %s (%r), which is not white space in IEEE 1800-2017 5.3: module m;%sendmodule parses %s' % (
                        what, c, c, 'Ok' if a.get('ok') else a.get('error')), 'model': None, 'status': 'reproduced' if a.get('ok') else 'not_reproduced',
                        'role': 'non-trivia-char:%r' % c})
            return out
        r = results.get(name)
        out = gcheck.base_case('scope-pairing', name, '%d paths' % len(r.get('paths', [])) if r else '', r)
        if not r or r['status'] != 'ok':
            raise Inconclusive('production %s: %s' % (name, (r or {}).get('msg', 'missing')))
        seen = set()
        for p in r['paths']:
            if p['outcome'] == 'panic':
                continue
            eff = tuple(p['effect'] or (0, 0))
            ok_ = bool(p['ok'])
            allowed = grun.ALLOWED_EFFECTS.get((name, ok_), {(0, 0)}) | {(0, 0)}
            if name in grun.ENTRY_POINTS:
                continue      # entry points reset the stacks (C07)
            bad = eff not in allowed or not p.get('prefix_kept', True)
            if bad:
                key = (ok_, eff)
                if key in seen:
                    continue
                seen.add(key)
                nat = gcheck.native_scope_leak(name)
                what = 'directive stack %+d, keyword-version stack %+d' % eff
                out['cex'].append({'kind': 'scope', 'note': 'production %s leaves the scope stacks changed on a %s path: %s (calls: %s)' % (
                    name, 'successful' if ok_ else 'failing', what, [e for e in (p.get('log') or [])][-4:]), 'model': None,
                    'status': 'reproduced' if nat else 'not_reproduced', 'native': nat,
                    'role': 'scope-leak:%s:%s' % (name, 'ok' if ok_ else 'err')})
        return out

    items = [Item(n) for n in sorted(results)] + [Item('@alphabet')]
    fam = ppprop.Family('scope-pairing', items, None, ('scope',), custom_work=work)
    import lexcases
    lw = lexcases.work_factory(gprod.productions(E.prog()))
    fam2 = ppprop.Family('bounded-lexical', [c for c in lexcases.cases(args.tier) if c.prop == 'C12'], None, ('lex',), custom_work=lw)
    return [fam, fam2]


def main():
    args = proprun.parse_args(PID)
    rc = ppprop.run(PID, 'model_checking', families, args,
                    rule='one case per grammar production (all %d bodies of sv-parser-parser, from MIR): every path through the body with each sub-parser outcome (Ok/Err) symbolic; '
                         'distinct_nontrivial counts (production, path) pairs of productions with more than one path' % 1298,
                    bounds={'tier': args.tier, 'loops': 'many0/many1/many_till/fold_many0 unrolled twice (repetitions of effect-free productions are one inductive step)',
                            'abstract calls per path': 14, 'per-production cap': '800 paths / 6 s quick, 4000 / 40 s thorough (truncated productions are listed)'},
                    outside=['memo hits that skip a side effect (C17: not applicable)', 'argument-closed directives as trivia beyond scope neutrality (their own parse is C01/C02)',
                             'content of trivia (comment lexers) -- bounded lexical queries'],
                    assumptions=['rustc nightly MIR', 'nom 7 complete-parser contracts for tag/is_a/is_not/one_of/none_of/alt/opt/map/pair/tuple/many0/many1/many_till/peek/not/terminated/preceded/recognize/all_consuming/eof/fold_many0',
                                 '#[packrat_parser] transparent (C17), #[recursive_parser] = fails on re-entry at the same position', 'callee productions satisfy the contract being proved (assume/guarantee)'],
                    sample_sym='ok_<production>_k, q_k (offsets), m_<primitive>_k')
    return rc


if __name__ == '__main__':
    sys.exit(main())
