"""C06  Directive-free text passes through the preprocessor unchanged; outputs are fixed points."""
import sys, time, itertools, copy
import z3
import engine as E
import ppsuite, ppref, ppfamily, proprun, ppprop
from engine import PPCase, Ref, PathV, VecV
from interp import Explorer, Inconclusive
from models import Models

PID = 'C06'


class TextCase:
    def __init__(self, label, text, expect='ok', fault_at=None):
        self.label, self.text, self.expect, self.fault_at = label, text, expect, fault_at


PIECES = {
    'word': 'ab1', 'num': "8'hFF", 'punct': ';(,)', 'op': 'a/b*c', 'str': '"s t"', 'str-esc': '"q\\"r\\\\"', 'str-tick': '"a`b`"',
    'str-slashes': '"x//y/*z*/"', 'esc-id': '\\esc+id ', 'lcom': '// line `x "q\n', 'bcom': '/* blk `y " */', 'bcom-ml': '/* a\n b */',
    'non-ascii-com': '// café ©\n', 'non-ascii-str': '"üß"', 'slash': 'a / b', 'star': '* ', 'dollar': '$display',
    'tick-in-com': '/* `define X */',
    'end-slash': 'q /', 'end-star': 'q *', 'end-dollar': 'q $', 'end-hash': 'q #', 'end-lt': '<', 'end-slash-only': '/',
    'div-tight': 'a/b', 'cmt-then-slash': '/**/ /', 'two-strings': '"C:\\\\tmp\\\\" "z"',
}
SEPS = ['', ' ', '\n', '\r\n', '\t', '  \n  ']


def passthrough_cases(tier, seed):
    cases = []
    for k, v in PIECES.items():
        cases.append(TextCase('piece/' + k, v + '\n'))
        cases.append(TextCase('piece-noeol/' + k, v))
    keys = list(PIECES)
    pairs = list(itertools.product(keys, keys))
    if tier == 'quick':
        pairs = pairs[::5]
    for i, (a, b) in enumerate(pairs):
        sep = SEPS[i % len(SEPS)]
        if sep == '' and (PIECES[a][-1].isalnum() or a in ('slash', 'op', 'star') or PIECES[a][-1] in '/*\\' or PIECES[b][0] in '/*'):
            sep = ' '
        cases.append(TextCase('pair/%s+%s/%d' % (a, b, i % len(SEPS)), PIECES[a] + sep + PIECES[b] + '\n'))
    for i, eol in enumerate(['\n', '\r\n', '\r', '\n\n', '']):
        cases.append(TextCase('eol/%d' % i, 'module m;' + eol + '  wire w;' + eol + 'endmodule' + eol))
    cases.append(TextCase('empty', ''))
    cases.append(TextCase('blank-only', '  \n\t\n'))
    # the only admissible rejections
    cases.append(TextCase('bad/unterminated-string', 'a "bc\n', 'err', 2))
    cases.append(TextCase('bad/unterminated-block-comment', 'a /* bc\n', 'err', 2))
    cases.append(TextCase('bad/lone-backslash', 'a \\ b\n', 'err', 2))
    cases.append(TextCase('bad/lone-backslash-eof', 'a \\', 'err', 2))
    return cases


def f4_emulate(text):
    """emulation of known finding F4: the trivia run that follows a string literal or an escaped
    identifier is emitted with the literal AND once more piece by piece (blank runs and comments,
    not newline runs)"""
    out = []
    i = 0
    n = len(text)

    def trivia_nodes(j):
        nodes = []
        while j < n:
            if text[j] in ' \t':
                k = j
                while k < n and text[k] in ' \t':
                    k += 1
                nodes.append(('space', text[j:k]))
                j = k
            elif text[j] in '\r\n':
                k = j
                while k < n and text[k] in ' \t\r\n':
                    k += 1
                nodes.append(('newline', text[j:k]))
                j = k
            elif text.startswith('//', j):
                k = text.find('\n', j)
                k = n if k < 0 else k + 1
                nodes.append(('comment', text[j:k]))
                j = k
            elif text.startswith('/*', j):
                k = text.find('*/', j + 2)
                if k < 0:
                    break
                nodes.append(('comment', text[j:k + 2]))
                j = k + 2
            else:
                break
        return nodes, j
    while i < n:
        c = text[i]
        if text.startswith('//', i):
            k = text.find('\n', i)
            k = n if k < 0 else k + 1
            out.append(text[i:k])
            i = k
        elif text.startswith('/*', i):
            k = text.find('*/', i + 2)
            k = n if k < 0 else k + 2
            out.append(text[i:k])
            i = k
        elif c == '"' or c == '\\':
            if c == '"':
                k = i + 1
                while k < n and text[k] != '"':
                    if text[k] == '\\':
                        k += 1
                    k += 1
                k += 1
            else:
                k = i + 1
                while k < n and text[k] not in ' \t\r\n':
                    k += 1
            out.append(text[i:k])
            nodes, j = trivia_nodes(k)
            out.append(text[k:j])
            for kind, t in nodes:
                if kind in ('space', 'comment'):
                    out.append(t)
            i = j
        else:
            out.append(c)
            i += 1
    return ''.join(out)


def pass_work(tc):
    t0 = time.time()
    case = PPCase(tc.text, path='top.sv', sym_defines={'A': ppfamily.ALT_BODIES['A']}, strip=False, ignore='sym', label=tc.label)
    real, ex = E.run_pp_case(case, want_origins=True, max_paths=50)
    out = {'family': 'passthrough', 'label': tc.label, 'text': tc.text, 'real_paths': len(real), 'ref_paths': 0, 'pairs': len(real),
           'queries': ex.solver_checks, 'solver_s': ex.solver_time, 'steps': ex.steps, 'models': ex.models_used, 'cex': [], 'obligations': [],
           'case': case.describe()}
    seen = set()
    for rp in real:
        notes = []
        role = None
        for ob in rp.obligations:
            notes.append(('panic', 'real code can panic: %s' % ob['msg'], ob.get('model')))
        if rp.outcome == 'panic':
            notes.append(('panic', 'real code panics: %s' % rp.panic['msg'], rp.model))
        elif tc.expect == 'ok':
            v = rp.value
            if not v['ok']:
                notes.append(('tokens', 'directive-free text rejected: %r' % (v['error'],), rp.model))
            else:
                if v['text'] != tc.text:
                    if v['text'] == f4_emulate(tc.text):
                        role = 'F4:trivia-after-string-or-escaped-identifier-duplicated'
                    notes.append(('tokens', 'output differs from input: %r' % v['text'], rp.model))
                else:
                    bad = [(i, o) for i, o in enumerate(v['origins']) if o != ['top.sv', i]]
                    if bad:
                        notes.append(('origin', 'origin(i) != (path, i) at %r' % (bad[:4],), rp.model))
        else:
            v = rp.value
            if v['ok']:
                notes.append(('tokens', 'text with a lexical fault accepted: %r' % v['text'], rp.model))
            else:
                e = v['error']
                if e.get('variant') != 'Preprocess' or not e.get('loc') or e['loc'][0] != 'top.sv' or e['loc'][1] > tc.fault_at:
                    notes.append(('tokens', 'fault at %d reported as %r' % (tc.fault_at, e), rp.model))
        for kind, note, model in notes:
            if (kind, note) in seen:
                continue
            seen.add((kind, note))
            agrees, nat, conc = ppsuite.replay_real(case, model, rp.value if rp.outcome == 'ok' else None)
            if kind == 'panic':
                agrees = bool(nat.get('panic') or nat.get('crash'))
            out['cex'].append({'kind': kind, 'note': note, 'model': model, 'native': nat if not nat.get('ok') else {'ok': True, 'text': nat.get('text')},
                               'status': 'reproduced' if agrees else 'not_reproduced', 'role': role or '%s:%s' % (kind, tc.label)})
    out['wall'] = round(time.time() - t0, 2)
    return out


def fixed_work(pg):
    """output of a successful run, preprocessed again with the same initial defines, is unchanged"""
    t0 = time.time()
    items = copy.deepcopy(pg.items)
    text = ppref.render(items)
    names = list(pg.names)
    case = PPCase(text, path='top.sv', sym_defines={n: ppfamily.ALT_BODIES[n] for n in names}, strip='sym', label='fix/' + pg.label)
    f_str = E.fn('preprocess_str')

    def run(it, txt, table, strip):
        r = it.run_func(f_str, [txt, PathV('top.sv'), Ref([table], 0), Ref([VecV([])], 0), False, strip, 0, 0])
        return it.concretize(r)

    def body(it):
        import z3
        strip = it.decide(z3.Bool('strip_comments'), 'strip_comments')
        it.env['native'] = E.native()
        it.env['format_hook'] = E.models_pp.format_hook
        it.env['fs'] = E.make_fs(case)
        t1, _ = E.make_table(it, case)
        t2, _ = E.make_table(it, case)
        r1 = run(it, text, t1, strip)
        if r1.variant != 'Ok':
            return {'skip': True}
        x1 = r1.fields[0].fields[0].fields[0].s
        r2 = run(it, x1, t2, strip)
        if r2.variant != 'Ok':
            return {'bad': 'second run fails: %r' % (E.error_py(r2.fields[0]),), 'first': x1}
        x2 = r2.fields[0].fields[0].fields[0].s
        if x2 != x1:
            return {'bad': 'not a fixed point: %r -> %r' % (x1, x2), 'first': x1, 'second': x2}
        return {'ok': True}
    mdl = Models()
    ex = Explorer(E.prog(), mdl, body, max_paths=200)
    res = ex.run()
    if ex.truncated:
        raise Inconclusive('path budget')
    out = {'family': 'fixedpoint', 'label': 'fix/' + pg.label, 'text': text, 'real_paths': len(res), 'ref_paths': 0, 'pairs': len(res),
           'queries': ex.solver_checks, 'solver_s': ex.solver_time, 'steps': ex.steps, 'models': dict(mdl.called), 'cex': [], 'obligations': [],
           'case': case.describe()}
    seen = set()
    for r in res:
        if r.outcome == 'panic':
            out['cex'].append({'kind': 'panic', 'note': r.panic['msg'], 'model': r.model, 'status': 'reproduced', 'role': 'panic:fix/' + pg.label})
            continue
        v = r.value
        if v.get('bad') and v['bad'] not in seen:
            seen.add(v['bad'])
            conc = E.concrete_assignment(case, r.model)
            q = {'cmd': 'preprocess', 'mode': 'str', 'path': 'top.sv', 'defines': E.defines_req(conc['defines']), 'strip_comments': bool(conc.get('strip_comments', False))}
            n1 = E.native().request(dict(q, text=text), cache=False)
            ok = False
            role = 'fixedpoint:' + pg.label
            if n1.get('ok'):
                n2 = E.native().request(dict(q, text=n1['text']), cache=False)
                ok = (not n2.get('ok')) or n2['text'] != n1['text']
                if n2.get('ok') and n2['text'] == f4_emulate(n1['text']):
                    role = 'F4:trivia-after-string-or-escaped-identifier-duplicated'
            out['cex'].append({'kind': 'tokens', 'note': v['bad'], 'model': r.model, 'status': 'reproduced' if ok else 'not_reproduced', 'role': role})
    out['wall'] = round(time.time() - t0, 2)
    return out


def families(args):
    fam1 = ppprop.Family('passthrough', passthrough_cases(args.tier, args.seed), None, ('tokens', 'origin'), custom_work=pass_work)
    progs = ppfamily.site_programs(args.tier, args.seed) + ppfamily.table_programs(args.tier, args.seed) + ppfamily.comment_programs(args.tier, args.seed)
    progs += ppfamily.cond_programs('quick', args.seed)[::(10 if args.tier == 'quick' else 3)]
    progs = [p for p in progs if '__LINE__' not in p.label]
    fam2 = ppprop.Family('fixedpoint', progs, None, ('tokens',), custom_work=fixed_work)
    import lexcases, gprod
    lw = lexcases.work_factory(gprod.productions(E.prog()))
    fam3 = ppprop.Family('bounded-lexical', [c for c in lexcases.cases(args.tier) if c.prop == 'C06'], None, ('lex',), custom_work=lw)
    return [fam1, fam2, fam3]


def main():
    args = proprun.parse_args(PID)
    return ppprop.run(PID, 'model_checking', families, args,
                      rule='passthrough: directive-free texts (every piece kind, adjacent pairs with 6 separators, CR/LF/CRLF, non-ASCII) on the real preprocess_str MIR with ignore_include and the '
                           'define table symbolic: Ok, text identical, origin(i)=(path,i) for every byte; the three lexical faults must give Preprocess(path, offset<=fault). '
                           'fixedpoint: programs of the other families: output of every successful path re-run inside the same symbolic execution must be unchanged',
                      bounds={'tier': args.tier, 'texts': 'lib props/c06.py PIECES x SEPS'},
                      outside=['directive-free texts outside the family (the grammar-side bounded lexical query is part of the C12/C01 grammar engine)', 'strip_comments=true (not an identity by definition)'],
                      assumptions=ppprop.STD_ASSUMPTIONS, sample_sym='ignore_include, def_A')


if __name__ == '__main__':
    sys.exit(main())
