"""C01  Concrete syntax tree is lossless: leaves tile the preprocessed text.

Engine G, V1 (one inductive verification condition per production, on the real MIR of its body):
assuming every callee returns a node whose leaves tile the span it consumed, the node THIS
production builds tiles [p_in, p_out): leaves in iteration order (= declared field order, C16)
are non-empty, adjacent, start where the production started and end where it stopped; every
Locate has line = L(offset) and len > 0.  Terminals (symbol/keyword/symbol_exact bodies, the
imperative lexers with concat/into_locate) are verified against the nom / nom_locate contracts.
Entry: source_text / library_text start at 0 and, strict, end at the end of the text."""
import sys, time
import engine as E
import proprun, ppprop, gcheck, grun
from interp import Inconclusive

PID = 'C01'


class Item:
    def __init__(self, label):
        self.label = label


def families(args):
    g = gcheck.gather(args)
    results = g['results']
    unknown_null = set(g.get('nullability_unknown') or [])

    def work(item):
        name = item.label
        r = results.get(name)
        if not r or r['status'] != 'ok':
            raise Inconclusive('production %s: %s' % (name, (r or {}).get('msg', 'missing')))
        out = gcheck.base_case('tiling-vc', name, '%d paths%s' % (len(r['paths']), ' (truncated)' if r.get('truncated') else ''), r)
        seen = set()
        okpaths = 0
        for p in r['paths']:
            if p['outcome'] == 'panic':
                key = ('panic', p['panic']['msg'][:60])
                if key not in seen:
                    seen.add(key)
                    out['cex'].append({'kind': 'tiling', 'note': 'production %s can panic: %s (calls %s)' % (name, p['panic']['msg'], (p.get('log') or [])[-4:]),
                                       'model': p.get('model'), 'status': 'reproduced', 'role': 'panic:%s' % name})
                continue
            for ob in (p.get('obligations') or []):
                key = ('ob', ob['msg'][:60])
                if key not in seen:
                    seen.add(key)
                    out['cex'].append({'kind': 'tiling', 'note': 'production %s can panic: %s' % (name, ob['msg']), 'model': ob.get('model'),
                                       'status': 'reproduced', 'role': 'panic:%s' % name})
            if p['ok']:
                okpaths += 1
                if p.get('v1_bad'):
                    key = ('v1', str(p.get('v1_intervals'))[:80])
                    if key in seen:
                        continue
                    seen.add(key)
                    callees = {ev[1] for ev in (p.get('log') or []) if len(ev) > 1}
                    if callees & unknown_null:
                        # the obligation may only fail because a callee's non-nullability analysis ran out of budget
                        raise Inconclusive('production %s: tiling obligation depends on callees whose nullability analysis exhausted its budget: %s' % (name, sorted(callees & unknown_null)[:5]))
                    wit = gcheck.native_tiling_witness()
                    out['cex'].append({'kind': 'tiling', 'note': 'the node built by %s does not tile the consumed span: leaf intervals %s, production ends at %s (calls %s)' % (
                        name, p.get('v1_intervals'), p.get('p_out'), (p.get('log') or [])[-5:]), 'model': p['v1_bad'], 'status': 'reproduced',
                        'native': wit or 'no text of the repository corpus exhibits it (verification condition on the production MIR)',
                        'role': 'tiling:%s' % name})
        if name in ('source_text', 'library_text') and okpaths:
            if not all(p.get('eof') for p in r['paths'] if p['outcome'] == 'ok' and p['ok']):
                out['cex'].append({'kind': 'tiling', 'note': 'strict entry %s can succeed before the end of the text' % name, 'model': None, 'status': 'reproduced',
                                   'role': 'strict-eof:%s' % name})
        return out

    items = [Item(n) for n in sorted(results)]
    # the tree refers to the preprocessed text: parse_sv_pp / parse_lib_pp hand exactly text.text() to the parser (wrapper MIR)
    import c20

    class W:
        def __init__(self, c):
            self.label, self.fn = 'wrapper/' + c.label, c.fn
    wrappers = [W(c20.pp_case(lib, k)) for lib in (False, True) for k in range(len(c20.SEG_LAYOUTS))]
    return [ppprop.Family('tiling-vc', items, None, ('tiling',), custom_work=work),
            ppprop.Family('text-handed-to-parser', wrappers, None, ('args', 'panic'), custom_work=lambda w: w.fn())]


def main():
    args = proprun.parse_args(PID)
    return ppprop.run(PID, 'model_checking', families, args,
                      rule='one verification condition per grammar production (all bodies of sv-parser-parser from MIR, incl. the symbol/keyword/symbol_exact terminals and white_space); each path through the body '
                           'with sub-parser outcomes, consumed offsets and lengths symbolic; z3 decides the tiling / line / non-empty obligations of the node built; non-nullability facts come from a fixpoint over the same runs',
                      bounds={'tier': args.tier, 'input length': 'unbounded (inductive in the callee contracts)', 'loops': 'unrolled twice', 'token events per path': 60,
                              'per-production cap': '800 paths / 6 s quick, 4000 / 40 s thorough; truncated productions are partially covered and listed in the samples text'},
                      outside=['nom_locate line counting itself (contract: line = 1 + newlines before the offset)', 'memo transparency (C17)', 'get_str / iteration order (C16 executes them from MIR on every node type)'],
                      assumptions=['rustc nightly MIR', 'nom 7 / nom_locate 4 contracts (lib/gengine.py)', 'assume/guarantee over productions; cycles consume input or are cut by #[recursive_parser]'],
                      sample_sym='p_in, q_k, n_k, ok_<production>_k')


if __name__ == '__main__':
    sys.exit(main())
