"""C04  Conditional compilation selects exactly the IEEE 22.6 branch.

Engine M concolic: the real preprocess_str (MIR) on a family of conditional programs with the initial
define table, strip_comments symbolic; reference evaluator (22.6 rule) under the same symbols;
z3 decides every intersection of a real path with a reference case."""
import sys, os, json, time
import engine as E
import ppsuite, ppref, ppfamily, proprun
from engine import PPCase
from interp import Inconclusive

PID = 'C04'
# known findings, recognised by re-running the reference WITH the defect emulated: a deviation is attributed to a finding only if
# the emulating reference reproduces the real output under the counterexample's assignment
QUIRK_ROLES = [(['elsif_predefined_uses_ifid'], 'F3:elsif-predefined-test-uses-first-identifier'),
               (['cond_head_ws_dropped'], 'F14:white-space-after-conditional-head-dropped'),
               (['elsif_predefined_uses_ifid', 'cond_head_ws_dropped'], 'F14:white-space-after-conditional-head-dropped')]


def evalfn(quirks=()):
    def f(st, items, file, strip, ign):
        st.quirks = set(quirks)
        ppref.ref_eval(st, items, file, None, strip, ppref.simple_expander, ign)
    return f


def make_case(pg):
    text = ppref.render(pg.items)
    sym = {n: ppfamily.ALT_BODIES[n] for n in pg.names}
    return PPCase(text, path='top.sv', sym_defines=sym, strip='sym', label=pg.label)


def work(pg):
    case = make_case(pg)
    t = time.time()
    cr = ppsuite.crosscheck(case, pg.items, evalfn(), kinds=('tokens',), want_origins=False)
    out = {'label': pg.label, 'text': case.text, 'real_paths': cr.real_paths, 'ref_paths': cr.ref_paths, 'pairs': cr.pairs,
           'queries': cr.queries + sum(e.solver_checks for e in cr.explorers),
           'solver_s': sum(e.solver_time for e in cr.explorers), 'steps': sum(e.steps for e in cr.explorers),
           'models': cr.explorers[0].models_used, 'cex': [], 'wall': 0}
    seen = set()
    for mm in cr.mismatches:
        key = (mm['kind'], mm['note'])
        if key in seen:
            continue
        seen.add(key)
        # native replay of the path under the model
        agrees, nat, conc = ppsuite.replay_real(case, mm['model'], mm['real'])
        cex = {'kind': mm['kind'], 'note': mm['note'], 'model': mm['model'], 'conc': conc, 'native': nat,
               'interp_agrees_with_native': agrees, 'case': case.describe()}
        if not agrees:
            cex['status'] = 'not_reproduced'
        else:
            # classify against known-finding emulations
            role = 'tokens:%s' % pg.label
            for quirks, qrole in QUIRK_ROLES:
                try:
                    ref3, _ = ppsuite.run_reference(case, pg.items, case.path, evalfn(quirks))
                    hit = False
                    for fp in ref3:
                        m = ppsuite.joint_model(fp.pc + [_model_constraint(mm['model'])])
                        if m is None:
                            continue
                        if fp.value[0] == 'ok' and nat.get('ok') and ppsuite.ref_tokens(fp.value[1]) == ppsuite.tokens_of(nat['text']):
                            hit = True
                        elif fp.value[0] == 'err' and not nat.get('ok') and nat.get('error'):
                            # the emulating reference fails like the real code (same innermost variant and name)
                            core, _d = ppsuite.err_core(nat['error'])
                            if core.get('variant') == fp.value[1] and (fp.value[2] is None or core.get('name') in (None, fp.value[2])):
                                hit = True
                    if hit:
                        role = qrole
                        break
                except Exception:
                    pass
            cex['status'] = 'reproduced'
            cex['role'] = role
        out['cex'].append(cex)
    out['wall'] = round(time.time() - t, 2)
    return out


def _model_constraint(model):
    import z3
    cs = []
    for k, v in model.items():
        if v in ('True', 'False'):
            cs.append(z3.Bool(k) == (v == 'True'))
    return z3.And(cs) if cs else z3.BoolVal(True)


def main(argv=None):
    args = proprun.parse_args(PID)
    ev = E.Evidence(PID, 'model_checking', args.tier, args.seed)
    rep = E.Reporter(PID, ev)
    try:
        E.setup()
        progs = ppfamily.cond_programs(args.tier, args.seed) + [p for p in ppfamily.ws_programs() if p.label.startswith('ws/cond')]
        progs += [p for p in ppfamily.table_programs(args.tier, args.seed) if 'escaped' in p.label]
        if args.only:
            progs = [p for p in progs if args.only in p.label]
        results = proprun.pmap(work, progs)
    except Exception as e:
        print('INCONCLUSIVE property=%s setup/run failed: %s' % (PID, e))
        ev.cov['explanation'] = 'failed: %s' % e
        ev.cov['evaluations'] = 1
        ev.cov['distinct_nontrivial'] = 0
        ev.write()
        return 2
    fam = ev.family('conditional programs x symbolic define table')
    for pg, (st, r) in zip(progs, results):
        if st != 'ok':
            rep.inconc('%s: %s' % (pg.label, r))
            continue
        ev.cov['evaluations'] += 1
        fam['cases'] += 1
        fam['paths'] += r['real_paths'] + r['ref_paths']
        fam['queries'] += r['queries']
        ev.cov['paths'] += r['real_paths']
        ev.cov['queries'] += r['queries']
        ev.cov['solver_s'] = round(ev.cov['solver_s'] + r['solver_s'], 3)
        for k, v in r['models'].items():
            ev.cov['models_and_stubs'][k] = ev.cov['models_and_stubs'].get(k, 0) + v
        if r['real_paths'] > 1:
            for i in range(r['real_paths']):
                ev.distinct((r['label'], i))
        ev.sample({'program': r['label'], 'text': r['text'], 'symbolic': 'def_A, def_B (presence), alt_* (no body / body), strip_comments',
                   'real_paths': r['real_paths'], 'reference_cases': r['ref_paths'], 'feasible_intersections': r['pairs']})
        for cex in r['cex']:
            if cex['status'] != 'reproduced':
                rep.inconc('counterexample of %s not reproduced natively (interpreter/model defect): %s' % (r['label'], cex['note'][:200]))
                continue
            ev.cov['replayed'] += 1
            rep.counterexample(cex['role'], cex['note'][:300], cex)
    ev.cov['states'] = ev.cov['paths']
    ev.cov['transitions'] = ev.cov['queries']
    ev.cov['traces_validated_against_impl'] = ev.cov['replayed']
    ev.cov['rule'] = ('each case = one abstract conditional program (exhaustive small shapes, seeded larger ones in thorough) run on the real '
                      'preprocess_str MIR with the define table and strip_comments symbolic; distinct_nontrivial counts (program, feasible real path) '
                      'pairs of programs with more than one feasible path')
    ev.cov['bounds'] = {'tier': args.tier, 'chain_length': '<=2 quick / <=3 thorough', 'nesting': '1 quick / 2 thorough',
                        'names': ['A', 'B', '__LINE__', '__FILE__'], 'table': 'A,B: absent | defined without body | defined with body'}
    ev.cov['outside'] = ['texts outside the generated family', 'more than 3 names in the table', 'function-like macros (C05)']
    ev.assumptions = ['rustc nightly MIR = semantics of the built code (dev profile arithmetic)', 'std models listed in models_and_stubs',
                      'the real nom parser, run natively, provides the tree of each concrete text (concolic split)',
                      'reference evaluator lib/ppref.py encodes IEEE 1800-2017 22.6']
    rc = rep.finish()
    ev.write()
    return rc


if __name__ == '__main__':
    sys.exit(main())
