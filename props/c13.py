"""C13  Reserved words of the keyword set in force are never identifiers.

(a) is_keyword / begin_keywords / end_keywords / current_version from MIR: the keyword-version stack
    (depth 0..3, top = any of the 9 selectors) and the word (index into the universe of all reserved
    words + non-reserved probes) are symbolic; is_keyword(w) <=> w in the reference set selected by
    the top of the stack (IEEE 1800-2017 when empty).  The per-standard tables are thus compared with
    the reference sets of IEEE 1800-2017 22.14 (oracle/keywords/*.txt) through the real lookup code.
(b) identifier lexers (Engine G on their MIR bodies, is_keyword symbolic): no successful path when
    is_keyword holds for the lexed word.
(c) the version in force at a token is the innermost open `begin_keywords: scope pairing is C12's V2."""
import sys, os, glob, time
import z3
import engine as E
import proprun, ppprop
import gengine as G
from engine import Ref, Struct, Enum, Tup, VecV, Opaque, UNIT
from interp import Explorer, Inconclusive, RustPanic
from models import Models, deref, sv

PID = 'C13'
VERSIONS = ['Ieee1364_1995', 'Ieee1364_2001', 'Ieee1364_2001Noconfig', 'Ieee1364_2005', 'Ieee1800_2005', 'Ieee1800_2009', 'Ieee1800_2012', 'Ieee1800_2017', 'Directive']
SPEC = {'1364-1995': 0, '1364-2001': 1, '1364-2001-noconfig': 2, '1364-2005': 3, '1800-2005': 4, '1800-2009': 5, '1800-2012': 6, '1800-2017': 7, 'directive': 8}
REFNAME = {0: '1364-1995', 1: '1364-2001', 2: '1364-2001-noconfig', 3: '1364-2005', 4: '1800-2005', 5: '1800-2009', 6: '1800-2012', 7: '1800-2017', 8: 'directive'}


def load_ref():
    ref = {}
    for f in glob.glob(os.path.join(E.VERIF, 'oracle', 'keywords', '*.txt')):
        ref[os.path.basename(f)[:-4]] = set(open(f).read().split())
    return ref


class Case:
    def __init__(self, label, fn):
        self.label, self.fn = label, fn


def mk_out(fam, label, text, res, ex, t0):
    out = {'family': fam, 'label': label, 'text': text, 'real_paths': len(res), 'ref_paths': 0, 'pairs': len(res), 'queries': ex.solver_checks,
           'solver_s': ex.solver_time, 'steps': ex.steps, 'models': getattr(ex, 'models_used', {}), 'cex': [], 'obligations': [], 'case': {'case': label}}
    seen = set()
    for r in res:
        if r.outcome == 'panic':
            out['cex'].append({'kind': 'kw', 'note': '%s panics: %s' % (label, r.panic['msg']), 'model': r.model, 'status': 'reproduced', 'role': 'panic:' + label})
            continue
        for n in (r.value or []):
            if n[:80] in seen:
                continue
            seen.add(n[:80])
            out['cex'].append({'kind': 'kw', 'note': n, 'model': r.model, 'status': 'reproduced', 'role': 'kw:' + label})
    out['wall'] = round(time.time() - t0, 2)
    return out


def lookup_case(sel, depth):
    """is_keyword under a stack of `depth` entries whose top is selector `sel` (sel None: empty stack)"""
    label = 'is_keyword/%s/depth%d' % (REFNAME[sel] if sel is not None else 'empty', depth)

    def work():
        t0 = time.time()
        ref = load_ref()
        universe = sorted(set().union(*ref.values()) | {'foo', 'modul', 'module_x', 'Module', 'wirex', '', 'end1', '_begin', 'begin_', 'xor1', 'wait_orde', 'forkjoi'})
        want = ref[REFNAME[sel]] if sel is not None else ref['1800-2017']
        f_is = E.fn('is_keyword', lambda e: e.mf.crate == 'sv-parser-parser')
        idx = {w: i for i, w in enumerate(universe)}

        def body(it):
            it.env['g'] = G.GState()
            it.env['const_hook'] = G.const_hook_tls
            vers = []
            for i in range(depth):
                k = sel if i == depth - 1 else (sel + 3 + i) % 9
                vers.append(Enum('Version', VERSIONS[k], k, []))
            it.env['tls'] = {'IN_DIRECTIVE': Struct('RefCell', [VecV([])]), 'CURRENT_VERSION': Struct('RefCell', [VecV(vers)]),
                             'PACKRAT_STORAGE': Struct('RefCell', [Opaque('PackratStorage', {'entries': 0})])}
            w = z3.Int('word')
            it.assume(z3.And(w >= 0, w < len(universe)))
            it.env['word'] = w
            sp = Opaque('LocatedSpan', {'off': 0, 'line': 1, 'len': None, 'symword': w})
            r = it.run_func(f_is, [Ref([sp], 0)])
            r = it.decide(r, 'result') if E.is_sym(r) else bool(r)
            # oracle: r <=> word in want
            inset = z3.Or([w == idx[x] for x in want])
            bad = z3.Not(inset) if r else inset
            notes = []
            if it.feasible(bad):
                m = it.model_for(bad)
                wd = universe[int(m['word'])]
                notes.append('is_keyword(%r) = %s with %s in force (reference set says %s)' % (wd, r, REFNAME[sel] if sel is not None else '1800-2017 (empty stack)', not r))
            return notes
        mdl = Models()
        G.install(mdl, None)

        def fragment(it, ci, a, d):
            s = deref(a[0]).data
            return Ref([Opaque('SymWord', s['symword'])], 0)
        mdl.overrides.insert(0, (__import__('re').compile(r'LocatedSpan::<.*>::fragment$|LocatedSpan::fragment$'), fragment))

        def streq(it, ci, a, d):
            x, y = deref(a[0]), deref(a[1])
            if type(y) is Opaque and y.kind == 'SymWord':
                x, y = y, x
            if type(x) is Opaque and x.kind == 'SymWord':
                k = sv(y)
                if k not in idx:
                    return False if ci.name == 'eq' else True
                c = (x.data == idx[k])
                return c if ci.name == 'eq' else z3.Not(c)
            return (sv(x) == sv(y)) ^ (ci.name == 'ne')
        mdl.overrides.insert(0, (__import__('re').compile(r'<&?&?str as PartialEq(<&?&?str>)?>::(eq|ne)$'), streq))

        def strcmp(it, ci, a, d):
            # the universe is sorted in str order (byte-wise), so the order of the symbolic word against a constant is the
            # order of the indices (constants outside the universe: their insertion point)
            import bisect
            from models import ordering, some
            x, y = deref(a[0]), deref(a[1])
            flip = False
            if type(y) is Opaque and y.kind == 'SymWord':
                x, y, flip = y, x, True
            if type(x) is Opaque and x.kind == 'SymWord':
                k = sv(y)
                if k in idx:
                    c = it.choose([x.data < idx[k], x.data == idx[k], x.data > idx[k]], 'wordcmp') - 1
                else:
                    ins = bisect.bisect_left(universe, k)
                    c = -1 if it.decide(x.data < ins, 'wordcmp') else 1
                c = -c if flip else c
            else:
                bx, by = sv(x).encode(), sv(y).encode()
                c = -1 if bx < by else (0 if bx == by else 1)
            r = ordering(c)
            return some(r) if ci.name == 'partial_cmp' else r
        mdl.overrides.insert(0, (__import__('re').compile(r'<&?&?(str|T) as (Partial)?Ord(<&?&?str>)?>::(cmp|partial_cmp)$'), strcmp))
        ex = Explorer(E.prog(), mdl, body, max_paths=2000, step_limit=80_000_000)
        res = ex.run()
        if ex.truncated:
            raise Inconclusive('path budget')
        ex.models_used = dict(mdl.called)
        return mk_out('keyword-lookup', label, 'word symbolic over %d words; %d paths' % (len(universe), len(res)), res, ex, t0)
    return Case(label, work)


def stack_case():
    """begin_keywords(v) pushes the selector named v; end_keywords pops; unknown specifier pushes nothing"""
    def work():
        t0 = time.time()
        f_begin = E.fn('begin_keywords', lambda e: e.mf.crate == 'sv-parser-parser')
        f_end = E.fn('end_keywords', lambda e: e.mf.crate == 'sv-parser-parser')
        f_cur = E.fn('current_version', lambda e: e.mf.crate == 'sv-parser-parser')
        specs = list(SPEC) + ['1800-2023', '', '1364-2001-noconfi']

        def body(it):
            it.env['g'] = G.GState()
            it.env['const_hook'] = G.const_hook_tls
            pre = z3.Int('pre_depth')
            it.assume(z3.And(pre >= 0, pre <= 2))
            pk = it.choose([pre == i for i in range(3)], 'pre')
            si = z3.Int('spec')
            it.assume(z3.And(si >= 0, si < len(specs)))
            sk = it.choose([si == i for i in range(len(specs))], 'spec')
            prev = [Enum('Version', VERSIONS[(2 * i + 1) % 9], (2 * i + 1) % 9, []) for i in range(pk)]
            it.env['tls'] = {'IN_DIRECTIVE': Struct('RefCell', [VecV([])]), 'CURRENT_VERSION': Struct('RefCell', [VecV(list(prev))]),
                             'PACKRAT_STORAGE': Struct('RefCell', [Opaque('PackratStorage', {'entries': 0})])}
            notes = []
            spec = specs[sk]
            it.run_func(f_begin, [spec])
            st = it.env['tls']['CURRENT_VERSION'].fields[0].fields
            if spec in SPEC:
                if len(st) != pk + 1 or st[-1].idx != SPEC[spec]:
                    notes.append('begin_keywords(%r) leaves stack %r' % (spec, [x.variant for x in st]))
                cur = it.concretize(it.run_func(f_cur, []))
                if cur.variant != 'Some' or cur.fields[0].idx != SPEC[spec]:
                    notes.append('current_version() after begin_keywords(%r) = %r' % (spec, cur))
                it.run_func(f_end, [])
                st = it.env['tls']['CURRENT_VERSION'].fields[0].fields
                if [x.idx for x in st] != [x.idx for x in prev]:
                    notes.append('end_keywords() after begin_keywords(%r) leaves %r, expected %r' % (spec, [x.variant for x in st], [x.variant for x in prev]))
            else:
                if len(st) != pk:
                    notes.append('begin_keywords(%r) (not a version specifier) changes the stack' % spec)
            return notes
        mdl = Models()
        G.install(mdl, None)
        ex = Explorer(E.prog(), mdl, body, max_paths=500)
        res = ex.run()
        ex.models_used = dict(mdl.called)
        return mk_out('version-stack', 'begin/end_keywords', 'specifier and prior depth symbolic', res, ex, t0)
    return Case('stack', work)


def lexer_case(name):
    """identifier lexer body through Engine G with is_keyword symbolic: no Ok path under is_keyword"""
    def work():
        import gprod
        t0 = time.time()
        prods = gprod.productions(E.prog())
        if name not in prods:
            raise Inconclusive('lexer %s not found among the productions' % name)
        kw = []

        def is_kw_hook(it):
            pass
        r = gprod.analyze(name, prods[name], extra_env={'record_kw': True}, max_paths=3000, time_cap=120)
        if r['truncated']:
            raise Inconclusive('path budget for %s' % name)
        out = {'family': 'identifier-lexers', 'label': name, 'text': '%d paths' % len(r['paths']), 'real_paths': len(r['paths']), 'ref_paths': 0, 'pairs': len(r['paths']),
               'queries': r['queries'], 'solver_s': r['solver_s'], 'steps': r['steps'], 'models': r['models'], 'cex': [], 'obligations': [], 'case': {'lexer': name}}
        okp = [p for p in r['paths'] if p.get('ok')]
        if not okp:
            out['cex'].append({'kind': 'kw', 'note': '%s has no successful path (vacuous)' % name, 'model': None, 'status': 'reproduced', 'role': 'kw:vacuous:' + name})
        for p in r['paths']:
            if p['outcome'] == 'panic':
                out['cex'].append({'kind': 'kw', 'note': '%s can panic: %s' % (name, p['panic']['msg']), 'model': p.get('model'), 'status': 'reproduced', 'role': 'panic:' + name})
            if p.get('ok') and p.get('kw_true_on_ok'):
                out['cex'].append({'kind': 'kw', 'note': '%s succeeds although is_keyword holds for the lexed word' % name, 'model': p.get('kw_true_on_ok'),
                                   'status': 'reproduced', 'role': 'kw:accepts-keyword:' + name})
            if p.get('ok') and not p.get('kw_called'):
                out['cex'].append({'kind': 'kw', 'note': '%s succeeds on a path that never consults is_keyword' % name, 'model': None, 'status': 'reproduced',
                                   'role': 'kw:no-check:' + name})
        out['wall'] = round(time.time() - t0, 2)
        return out
    return Case('lexer/' + name, work)


SCOPED_CALLS = [('text_macro_definition', ('text_macro_name',)), ('text_macro_usage', ('text_macro_identifier',))]


def scoped_case(prod, callees):
    """IEEE 1800-2017 22.5.1: a text macro name shall not be a compiler directive name -- the name of a `define and of a usage
    is lexed with the set of directive names on top of the keyword-version stack (Engine G on the production body: the scope in
    force is recorded at every sub-parser call)"""
    def work():
        import gprod
        t0 = time.time()
        prods = gprod.productions(E.prog())
        if prod not in prods:
            raise Inconclusive('production %s not found' % prod)
        r = gprod.analyze(prod, prods[prod], extra_env={'record_ctx': True}, max_paths=3000, time_cap=120)
        if r['truncated']:
            raise Inconclusive('path budget for %s' % prod)
        out = {'family': 'directive-name-scope', 'label': prod, 'text': '%d paths' % len(r['paths']), 'real_paths': len(r['paths']), 'ref_paths': 0, 'pairs': len(r['paths']),
               'queries': r['queries'], 'solver_s': r['solver_s'], 'steps': r['steps'], 'models': r['models'], 'cex': [], 'obligations': [], 'case': {'production': prod}}
        seen = set()
        called = False
        for p in r['paths']:
            for (callee, vtop, vdepth, ddepth) in (p.get('ctx') or []):
                if callee in callees:
                    called = True
                    if vtop != 'Directive' and (callee, vtop) not in seen:
                        seen.add((callee, vtop))
                        out['cex'].append({'kind': 'kw', 'note': '%s lexes the macro name (%s) with %s on top of the keyword-version stack, not the set of compiler-directive names: '
                                           'a directive name can be taken for a macro name' % (prod, callee, vtop or 'nothing pushed'),
                                           'model': None, 'status': 'reproduced', 'role': 'kw:directive-scope:' + prod})
        if not called and any(p.get('ok') for p in r['paths']):
            # the production no longer goes through the sub-parser the obligation is attached to (restructured grammar): undecided
            raise Inconclusive('%s succeeds without calling %s: the scope obligation has no anchor' % (prod, '/'.join(callees)))
        out['wall'] = round(time.time() - t0, 2)
        return out
    return Case('scope/' + prod, work)


def families(args):
    cases = [stack_case()]
    for sel in list(range(9)):
        cases.append(lookup_case(sel, 1))
    cases.append(lookup_case(None, 0))
    cases.append(lookup_case(4, 3))
    cases.append(lookup_case(0, 2))
    for lx in ('simple_identifier_impl', 'c_identifier_impl'):
        cases.append(lexer_case(lx))
    for prod, callees in SCOPED_CALLS:
        cases.append(scoped_case(prod, callees))
    import lexcases, gprod
    lw = lexcases.work_factory(gprod.productions(E.prog()))
    fam2 = ppprop.Family('bounded-lexical', [c for c in lexcases.cases(args.tier) if c.prop == 'C13'], None, ('lex',), custom_work=lw)
    return [ppprop.Family('reserved-words', cases, None, ('kw',), custom_work=lambda c: c.fn()), fam2]


def main():
    args = proprun.parse_args(PID)
    return ppprop.run(PID, 'model_checking', families, args,
                      rule='keyword-lookup: one case per selector on top of the version stack (and the empty stack), the word an index into the universe of all reserved words plus probes, z3 variable; the real '
                           'is_keyword MIR loops over the real table, each comparison forks; version-stack: begin/end_keywords and current_version from MIR for every specifier; identifier-lexers: Engine G on '
                           'the lexer bodies with is_keyword symbolic',
                      bounds={'tier': args.tier, 'stack depth': '0..3', 'universe': 'union of the reference sets + probes'},
                      outside=['words outside the universe compare unequal to every table entry by construction of the lookup loop (str equality)', 'memo hits that skip a begin_keywords side effect (C17, not applicable)',
                               'that every identifier production goes through the two lexers (grammar inspection: identifier -> simple_identifier/escaped_identifier)'],
                      assumptions=['rustc nightly MIR', 'reference keyword sets oracle/keywords/*.txt written from IEEE 1800-2017 22.14 / Annex B independently of the repository (they agree with keywords.rs on the unchanged tree)',
                                   'thread-local / RefCell models'],
                      sample_sym='word, spec, pre_depth')


if __name__ == '__main__':
    sys.exit(main())
