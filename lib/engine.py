"""Shared machinery for the property checks: program loading, preprocess harness (concolic runs of the
real preprocess_str / preprocess MIR), native replay, evidence, known findings."""
import os, sys, json, time, hashlib
HERE = os.path.dirname(os.path.abspath(__file__))
VERIF = os.path.dirname(HERE)
sys.path.insert(0, os.path.join(VERIF, 'mirsym'))
sys.path.insert(0, HERE)
import z3
import build
from interp import Program, Interp, Explorer, Inconclusive, RustPanic, PathInfeasible, StepLimit
from values import *
import models as M
from models import Models, HashMapV, HEntry, some, none, ok, err, deref, sv
import models_pp
from native import Native, Scratch

_prog = None
_native = None
BUILD_INFO = {}


def setup(need_mir=('pp', 'sv-parser', 'sv-parser-syntaxtree', 'sv-parser-parser'), need_native=True):
    global _prog, _native
    t = time.time()
    if need_native:
        build.ensure_svreplay()
    info = build.ensure_mir(need_mir)
    BUILD_INFO['mir'] = {k: {'hash': v['hash'][:16], 'regenerated': v['regenerated']} for k, v in info.items()}
    BUILD_INFO['build_s'] = round(time.time() - t, 1)
    _prog = Program(mirdir=build.MIRDIR, repo=build.SNAP, crates=list(need_mir), target_dirs=(build.MIR_TARGET,))
    if need_native:
        _native = Native(build.SVREPLAY)
    return _prog


def prog():
    return _prog


def native():
    return _native


def fn(simple, pred=None):
    c = [e for e in _prog.by_simple.get(simple, ()) if pred is None or pred(e)]
    if len(c) != 1:
        raise Inconclusive('function %s not found uniquely (%d candidates): %s' % (simple, len(c), [e.name for e in c][:5]))
    return _prog.func(c[0])


# ------------------------------------------------------------------------------------------------
# values <-> python

def define_value(d):
    """python description -> Option<Define> value.  d: None (defined, no body) | dict(args, text, origin)"""
    if d is None:
        return none()
    args = VecV([Tup([StringV(a), (some(StringV(dv)) if dv is not None else none())]) for a, dv in d.get('args', [])])
    if d.get('text') is None:
        text = none()
    else:
        o = d.get('origin')
        origin = none() if o is None else some(Tup([PathV(o[0]), Struct('Range', [o[1], o[2]])]))
        text = some(Struct('DefineText', [StringV(d['text']), origin]))
    return some(Struct('Define', [StringV(d.get('identifier', d['name'])), args, text]))


def define_py(v):
    """Option<Define> value -> python description"""
    if type(v) is Choice:
        return {'choice': [(str(c), define_py(x)) for c, x in v.alts]}
    if v.variant == 'None':
        return None
    d = v.fields[0]
    ident = d.fields[0].s
    args = []
    for t in d.fields[1].fields:
        dv = t.fields[1]
        args.append([t.fields[0].s, dv.fields[0].s if dv.variant == 'Some' else None])
    tx = d.fields[2]
    if tx.variant == 'None':
        return {'identifier': ident, 'args': args, 'text': None, 'origin': None}
    dt = tx.fields[0]
    o = dt.fields[1]
    origin = None
    if o.variant == 'Some':
        origin = [o.fields[0].fields[0].s, o.fields[0].fields[1].fields[0], o.fields[0].fields[1].fields[1]]
    return {'identifier': ident, 'args': args, 'text': dt.fields[0].s, 'origin': origin}


def error_py(e):
    """Error enum value -> python dict (same shape as svreplay's err_json)"""
    v = e.variant
    if v == 'Include':
        src = e.fields[0]
        if type(src) is BoxV:
            src = src.cell[0]
        return {'variant': 'Include', 'source': error_py(src)}
    if v == 'File':
        p = e.fields[1]
        return {'variant': 'File', 'path': p.s}
    if v == 'ReadUtf8':
        return {'variant': 'ReadUtf8', 'path': e.fields[0].s}
    if v in ('Parse', 'Preprocess'):
        o = e.fields[0]
        if o.variant == 'None':
            return {'variant': v, 'loc': None}
        t = o.fields[0]
        off = t.fields[1]
        return {'variant': v, 'loc': [t.fields[0].s, off if not is_sym(off) else str(off)]}
    if v in ('DefineArgNotFound', 'DefineNotFound', 'DefineNoArgs'):
        return {'variant': v, 'name': sv(e.fields[0])}
    return {'variant': v}


# ------------------------------------------------------------------------------------------------

class PPCase:
    """one concolic case for the preprocessor: concrete text(s), symbolic everything else"""

    def __init__(self, text, path='top.sv', sym_defines=None, conc_defines=None, files=None, include_paths=(),
                 strip='sym', ignore=False, resolve_depth=0, include_depth=0, entry='str', label=''):
        self.text = text
        self.path = path
        # sym_defines: {name: [alternatives]}; alternative = None | dict (see define_value); presence symbolic
        self.sym_defines = sym_defines or {}
        self.conc_defines = conc_defines or {}
        # files: {path: {'contents': [str|None,...], 'exists': True|False|'sym'}}
        self.files = files or {}
        self.include_paths = list(include_paths)
        self.strip = strip
        self.ignore = ignore
        self.resolve_depth = resolve_depth
        self.include_depth = include_depth
        self.entry = entry      # 'str' (preprocess_str) | 'file' (preprocess)
        self.label = label

    def describe(self):
        return {'label': self.label, 'text': self.text, 'path': self.path, 'entry': self.entry,
                'sym_defines': {k: v for k, v in self.sym_defines.items()},
                'conc_defines': self.conc_defines,
                'files': {k: {'contents': v['contents'], 'exists': v.get('exists', True)} for k, v in self.files.items()},
                'include_paths': self.include_paths, 'strip': self.strip, 'ignore': self.ignore,
                'resolve_depth': self.resolve_depth, 'include_depth': self.include_depth}


def symvar_bool(name):
    return z3.Bool(name)


def make_table(it, case):
    """initial define table (HashMap value) + z3 vars.  Returns (value, info) where info maps
    name -> (present_var, [alt_conditions])"""
    hm = HashMapV()
    info = {}
    for name, alts in case.sym_defines.items():
        pres = z3.Bool('def_' + name)
        if len(alts) == 1:
            val = define_value(_named(alts[0], name))
            conds = [True]
        else:
            sel = [z3.Bool('alt_%s_%d' % (name, i)) for i in range(len(alts) - 1)]
            conds = []
            prev = []
            for i in range(len(alts)):
                if i < len(sel):
                    conds.append(z3.And(prev + [sel[i]]) if prev else sel[i])
                    prev = prev + [z3.Not(sel[i])]
                else:
                    conds.append(z3.And(prev))
            val = Choice([(c, define_value(_named(a, name))) for c, a in zip(conds, alts)], 'define_' + name)
        hm.entries[name] = HEntry(StringV(name), pres, [val])
        info[name] = (pres, conds)
    for name, d in case.conc_defines.items():
        hm.entries[name] = HEntry(StringV(name), True, [define_value(_named(d, name))])
    return Opaque('HashMap', hm), info


def _named(d, name):
    if d is None:
        return None
    d = dict(d)
    d.setdefault('name', name)
    return d


def make_fs(case):
    fs = models_pp.SymFS()
    for p, f in case.files.items():
        ex = f.get('exists', True)
        if ex == 'sym':
            ex = z3.Bool('exists_' + p)
        fs.add(p, f['contents'], ex)
    return fs


def flag(it, v, name):
    if v == 'sym':
        return z3.Bool(name)
    return bool(v)


def depth(it, v, name):
    if v == 'sym':
        x = z3.Int(name)
        # recursion counters: callers start them at 0; values within 2^62 of usize::MAX are outside the claim
        it.assume(z3.And(x >= 0, x <= (1 << 62)))
        return x
    return int(v)


def pt_py(it, pt, want_origins=True, origin_fn=None):
    """PreprocessedText value -> (text, origins list) using the REAL origin() from MIR"""
    text = pt.fields[0]
    s = text.s
    origins = None
    if want_origins:
        origins = []
        cell = [pt]
        n = len(s.encode('utf-8'))
        for pos in range(n):
            r = it.run_func(origin_fn, [Ref(cell, 0), pos])
            r = it.concretize(r)
            if r.variant == 'None':
                origins.append(None)
            else:
                t = r.fields[0]
                origins.append([deref(t.fields[0]).s, t.fields[1]])
    return s, origins


def table_py(hmv):
    """returned Defines -> {name: (present, value_py)} (presence may be a z3 term)"""
    out = {}
    for k, e in hmv.data.entries.items():
        if e.present is False:
            continue
        out[k] = (e.present, define_py(e.val[0]))
    return out


def run_pp_case(case, want_origins=True, max_paths=400, step_limit=30_000_000, extra_env=None, models=None):
    """explore all paths of the real preprocess_str/preprocess on the case.
    Returns (results, explorer); each result.value is a dict."""
    P = _prog
    f_str = fn('preprocess_str')
    f_file = fn('preprocess', lambda e: len(e.argnorm) == 5)
    f_origin = fn('origin', lambda e: e.argnorm and e.argnorm[0] == '&PreprocessedText')
    mdl = models or Models()

    def body(it):
        it.env['native'] = _native
        it.env['format_hook'] = models_pp.format_hook
        it.env['fs'] = make_fs(case)
        if extra_env:
            it.env.update(extra_env)
        table, info = make_table(it, case)
        strip = flag(it, case.strip, 'strip_comments')
        ign = flag(it, case.ignore, 'ignore_include')
        incs = Ref([VecV([PathV(p) for p in case.include_paths])], 0)
        if case.entry == 'str':
            rd = depth(it, case.resolve_depth, 'resolve_depth')
            idp = depth(it, case.include_depth, 'include_depth')
            r = it.run_func(f_str, [case.text, PathV(case.path), Ref([table], 0), incs, ign, strip, rd, idp])
        else:
            r = it.run_func(f_file, [PathV(case.path), Ref([table], 0), incs, strip, ign])
        r = it.concretize(r)
        out = {'opened': list(it.env.get('opened', [])), 'reads': list(it.env.get('reads', []))}
        if r.variant == 'Ok':
            pt = r.fields[0].fields[0]
            s, origins = pt_py(it, pt, want_origins, f_origin)
            out.update({'ok': True, 'text': s, 'origins': origins, 'table': table_py(r.fields[0].fields[1])})
        else:
            out.update({'ok': False, 'error': error_py(r.fields[0])})
        return out

    ex = Explorer(P, mdl, body, max_paths=max_paths, step_limit=step_limit)
    res = ex.run()
    ex.models_used = dict(mdl.called)
    ex.mir_used = dict(mdl.mir_called)
    return res, ex


def concrete_assignment(case, model):
    """z3 model (dict name->str) -> concrete inputs for native replay of a PPCase"""
    model = model or {}

    def b(name, default=False):
        v = model.get(name)
        if v is None:
            return default
        return v == 'True'
    defines = {}
    for name, alts in case.sym_defines.items():
        if not b('def_' + name):
            continue
        k = len(alts) - 1
        for i in range(len(alts) - 1):
            if b('alt_%s_%d' % (name, i)):
                k = i
                break
        defines[name] = alts[k]
    for name, d in case.conc_defines.items():
        defines[name] = d
    files = {}
    for p, f in case.files.items():
        ex = f.get('exists', True)
        if ex == 'sym':
            ex = b('exists_' + p)
        if not ex:
            continue
        cs = f['contents']
        k = len(cs) - 1
        for i in range(len(cs) - 1):
            if b('fs_alt_%s_%d' % (p, i)):
                k = i
                break
        files[p] = cs[k]
    strip = b('strip_comments') if case.strip == 'sym' else bool(case.strip)
    ign = b('ignore_include') if case.ignore == 'sym' else bool(case.ignore)

    def d(v, name):
        if v == 'sym':
            return int(model.get(name, '0'))
        return int(v)
    return {'defines': defines, 'files': files, 'strip_comments': strip, 'ignore_include': ign,
            'resolve_depth': d(case.resolve_depth, 'resolve_depth'), 'include_depth': d(case.include_depth, 'include_depth')}


def defines_req(defines):
    out = {}
    for k, v in defines.items():
        if v is None:
            out[k] = None
        else:
            out[k] = {'identifier': v.get('identifier', k), 'args': [list(a) for a in v.get('args', [])],
                      'text': v.get('text'), 'origin': v.get('origin')}
    return out


def native_pp(case, conc, once=False):
    """replay a PPCase natively under a concrete assignment; returns svreplay's response"""
    with Scratch({}) as sc:
        # absolute paths of a case ('/abs/...') live under the scratch directory natively
        ABS = '/abs/'
        real_abs = sc.dir + '/abs/'

        def sub(x):
            return x.replace(ABS, real_abs) if isinstance(x, str) else x

        def unsub(x):
            if isinstance(x, str):
                return x.replace(real_abs, ABS)
            if isinstance(x, list):
                return [unsub(y) for y in x]
            if isinstance(x, dict):
                return {k: unsub(v) for k, v in x.items()}
            return x
        for p, c in conc['files'].items():
            content = sub(c) if c is not None else b'\xff\xfe invalid utf8 \xc3\x28'
            fp = sub(p) if p.startswith('/') else os.path.join(sc.dir, p)
            if not fp.startswith(sc.dir):
                raise Inconclusive('refusing to write outside the scratch directory: %s' % fp)
            os.makedirs(os.path.dirname(fp), exist_ok=True)
            with open(fp, 'wb' if isinstance(content, bytes) else 'w') as fh:
                fh.write(content)
        req = {'cmd': 'preprocess', 'cwd': sc.dir, 'path': case.path, 'defines': defines_req(conc['defines']),
               'include_paths': [sub(x) for x in case.include_paths], 'strip_comments': conc['strip_comments'],
               'ignore_include': conc['ignore_include']}
        if case.entry == 'str':
            req.update({'mode': 'str', 'text': sub(case.text), 'resolve_depth': conc['resolve_depth'],
                        'include_depth': conc['include_depth']})
        else:
            req['mode'] = 'file'
        r = _native.once(req) if once else _native.request(req, cache=False)
        if ABS in case.text or any(p.startswith('/') for p in conc['files']):
            r = unsub(r)
            # offsets after a substituted path shift by a constant; cases with absolute paths compare text and errors only
            if isinstance(r, dict) and 'origins' in r:
                r['origins'] = None
        return r


# ------------------------------------------------------------------------------------------------
# evidence / findings

class Evidence:
    def __init__(self, pid, level, tier, seed):
        self.pid = pid
        self.level = level
        self.tier = tier
        self.seed = seed
        self.t0 = time.time()
        self.cov = {'evaluations': 0, 'distinct_nontrivial': 0, 'rule': '', 'samples': [], 'families': {},
                    'functions_encoded': {}, 'bounds': {}, 'queries': 0, 'queries_unsat': 0, 'queries_sat': 0,
                    'solver_s': 0.0, 'paths': 0, 'replayed': 0, 'models_and_stubs': {}, 'outside': []}
        self.assumptions = []
        self.violations = 0
        self.known = []
        self._distinct = set()

    def family(self, name, **kw):
        f = self.cov['families'].setdefault(name, {'cases': 0, 'paths': 0, 'queries': 0, 'sat': 0, 'unsat': 0})
        for k, v in kw.items():
            if isinstance(v, (int, float)) and not isinstance(v, bool):
                f[k] = f.get(k, 0) + v
            else:
                f[k] = v
        return f

    def distinct(self, key, nontrivial=True):
        if nontrivial:
            self._distinct.add(key)

    def sample(self, s, limit=12):
        if len(self.cov['samples']) < limit:
            self.cov['samples'].append(s)

    def add_explorer(self, ex):
        self.cov['paths'] += len(ex.results)
        self.cov['queries'] += ex.solver_checks
        self.cov['solver_s'] = round(self.cov['solver_s'] + ex.solver_time, 3)
        for k, v in getattr(ex, 'models_used', {}).items():
            self.cov['models_and_stubs'][k] = self.cov['models_and_stubs'].get(k, 0) + v

    def write(self):
        self.cov['distinct_nontrivial'] = len(self._distinct)
        if _prog is not None:
            self.cov['functions_encoded'] = {k: v for k, v in sorted(_prog.encoded.items())[:400]}
            self.cov['functions_encoded_count'] = len(_prog.encoded)
        self.cov['build'] = BUILD_INFO
        d = {'property_id': self.pid, 'tier': self.tier, 'seed': self.seed, 'level': self.level,
             'coverage': self.cov, 'assumptions': self.assumptions, 'wall_s': round(time.time() - self.t0, 2),
             'violations': self.violations, 'known_findings_matched': self.known}
        # VERIF_EVIDENCE_DIR: used only by tools/try_mutant.sh so that runs against a deliberately broken tree do not overwrite
        # the evidence of the real tree
        edir = os.environ.get('VERIF_EVIDENCE_DIR') or os.path.join(VERIF, 'evidence')
        os.makedirs(edir, exist_ok=True)
        p = os.path.join(edir, self.pid + '.json')
        with open(p + '.tmp', 'w') as fh:
            json.dump(d, fh, indent=1, default=str)
        os.replace(p + '.tmp', p)


def load_known():
    p = os.path.join(VERIF, 'known_findings.json')
    if not os.path.exists(p):
        return {'findings': [], 'fixed': []}
    return json.load(open(p))


class Reporter:
    """collects reproduced counterexamples; matches them against known findings by role key"""

    def __init__(self, pid, ev):
        self.pid = pid
        self.ev = ev
        self.known = [f for f in load_known().get('findings', []) if f['property'] == pid]
        self.violations = []
        self.known_hits = {}
        self.inconclusive = []

    def counterexample(self, role, what, replay):
        """role: stable key describing which site/branch fails; replay: dict written to a replay file"""
        for f in self.known:
            if f['role'] == role:
                self.known_hits.setdefault(role, {'finding': f, 'count': 0, 'first': what})['count'] += 1
                return 'known'
        self.violations.append((role, what, replay))
        return 'violation'

    def inconc(self, msg):
        self.inconclusive.append(msg)

    def finish(self):
        for role, h in self.known_hits.items():
            print('KNOWN-FINDING: property=%s %s (%s; %d occurrence(s) this run)' % (self.pid, h['finding']['what'], role, h['count']))
            self.ev.known.append({'role': role, 'count': h['count']})
        rc = 0
        if self.violations:
            os.makedirs(os.path.join(VERIF, 'build', 'replay'), exist_ok=True)
            seen = set()
            for i, (role, what, replay) in enumerate(self.violations):
                if role in seen:
                    continue
                seen.add(role)
                p = os.path.join(VERIF, 'build', 'replay', '%s_%d.json' % (self.pid, i))
                with open(p, 'w') as fh:
                    json.dump({'property': self.pid, 'role': role, 'what': what, 'replay': replay}, fh, indent=1, default=str)
                print('VIOLATION property=%s replay=%s' % (self.pid, p))
                print('  role=%s: %s' % (role, what))
            self.ev.violations = len(seen)
            rc = 1
        elif self.inconclusive:
            for m in self.inconclusive[:10]:
                print('INCONCLUSIVE property=%s %s' % (self.pid, m))
            rc = 2
        self.ev.cov['inconclusive'] = self.inconclusive[:20]
        return rc
