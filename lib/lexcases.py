"""Bounded lexical cases (Engine L) and their reference lexers, written from IEEE 1800-2017 clause 5."""
import time
import engine as E
import gprod, lexengine as L
from engine import AbsStr
from interp import Inconclusive

BLANK_RUN_SPACE = ' \t\x0c'        # WhiteSpace::Space
BLANKS = ' \t\r\n\x0c'


def skip_blanks(R, i):
    while i < R.n and R.isin(i, BLANKS):
        i += 1
    return i


# ---- references ---------------------------------------------------------------------------------
def ref_keyword(t):
    idc = L.IDCHARS

    def f(R):
        if R.n < len(t):
            return ('err',)
        for i, ch in enumerate(t):
            if not R.isin(i, ch):
                return ('err',)
        if R.n > len(t) and R.isin(len(t), idc):
            return ('err',)      # the word continues: not this keyword
        return ('ok', skip_blanks(R, len(t)))
    return f


def ref_symbol(t):
    def f(R):
        if R.n < len(t):
            return ('err',)
        for i, ch in enumerate(t):
            if not R.isin(i, ch):
                return ('err',)
        return ('ok', skip_blanks(R, len(t)))
    return f


def ref_comment(R):
    if R.n < 2 or not R.isin(0, '/'):
        return ('err',)
    if R.isin(1, '/'):
        i = 2
        while i < R.n and not R.isin(i, '\n'):
            i += 1
        return ('ok', i + 1 if i < R.n else i)
    if R.isin(1, '*'):
        i = 2
        while i + 1 < R.n:
            if R.isin(i, '*') and R.isin(i + 1, '/'):
                return ('ok', i + 2)
            i += 1
        return ('err',)
    return ('err',)


def ref_string(R):
    if R.n < 2 or not R.isin(0, '"'):
        return ('err',)
    i = 1
    while i < R.n:
        if R.isin(i, '\\'):
            if i + 1 >= R.n:
                return ('err',)
            i += 2
            continue
        if R.isin(i, '"'):
            return ('ok', i + 1)
        i += 1
    return ('err',)


def ref_simple_identifier(dollar):
    def f(R):
        if R.n < 1 or not R.isin(0, L.IDSTART):
            return ('err',)
        i = 1
        while i < R.n and R.isin(i, L.IDCHARS + ('$' if dollar else '')):
            i += 1
        return ('ok', i)
    return f


def ref_white_space(R):
    """one white_space node outside directives: blank/tab/form-feed run | newline-led run | comment"""
    if R.n < 1:
        return ('err',)
    if R.isin(0, BLANK_RUN_SPACE):
        i = 1
        while i < R.n and R.isin(i, BLANK_RUN_SPACE):
            i += 1
        return ('ok', i)
    if R.isin(0, '\r\n'):
        i = 1
        while i < R.n and R.isin(i, BLANKS):
            i += 1
        return ('ok', i)
    if R.isin(0, '/'):
        return ref_comment(R)
    return ('err',)


def ref_pp_text(R):
    """directive-free text is accepted by the preprocessor grammar unless it has an unterminated string, an unterminated
    block comment or a lone backslash (IEEE 5.4-5.9); accepted text is consumed entirely"""
    i = 0
    n = R.n
    while i < n:
        if R.isin(i, '"'):
            j = i + 1
            closed = False
            while j < n:
                if R.isin(j, '\\'):
                    if j + 1 >= n:
                        return ('err',)
                    j += 2
                    continue
                if R.isin(j, '"'):
                    closed = True
                    break
                j += 1
            if not closed:
                return ('err',)
            i = j + 1
            continue
        if R.isin(i, '/') and i + 1 < n and R.isin(i + 1, '/'):
            j = i + 2
            while j < n and not R.isin(j, '\n'):
                j += 1
            i = j + 1 if j < n else j
            continue
        if R.isin(i, '/') and i + 1 < n and R.isin(i + 1, '*'):
            j = i + 2
            closed = False
            while j + 1 < n:
                if R.isin(j, '*') and R.isin(j + 1, '/'):
                    closed = True
                    break
                j += 1
            if not closed:
                return ('err',)
            i = j + 2
            continue
        if R.isin(i, '\\'):
            # escaped identifier: backslash followed by at least one non-white-space character
            if i + 1 >= n or R.isin(i + 1, BLANKS):
                return ('err',)
            j = i + 1
            while j < n and not R.isin(j, BLANKS):
                j += 1
            i = j
            continue
        i += 1
    return ('ok', n)


# ---- cases ---------------------------------------------------------------------------------------
def cmp_consumed(real, ref):
    if real[0] != ref[0]:
        return 'real %s, reference %s' % (real[0], ref[0])
    if real[0] == 'ok' and real[1] != ref[1]:
        return 'real consumes %d bytes, reference %d' % (real[1], ref[1])
    if real[0] == 'ok':
        cur = 0
        for a, b in real[2]['leaves']:
            if a != cur or b <= a:
                return 'leaves %s do not tile [0,%d)' % (real[2]['leaves'], real[1])
            cur = b
        if cur != real[1]:
            return 'leaves %s do not tile [0,%d)' % (real[2]['leaves'], real[1])
    return None


def cmp_accept_all(real, ref):
    if real[0] != ref[0]:
        return 'real %s, reference %s' % (real[0], ref[0])
    return None


class LexCase:
    def __init__(self, label, entry, lengths, alphabet, reffn, compare=cmp_consumed, prop=None, **kw):
        self.label, self.entry, self.lengths, self.alphabet, self.reffn, self.compare, self.prop, self.kw = label, entry, lengths, alphabet, reffn, compare, prop, kw


def cases(tier):
    N = 4 if tier == 'quick' else 6
    cs = []
    for t in ('end', 'int', 'wire', '1800-2017'):
        alpha = set(t) | set('x_1$ (\n')
        cs.append(LexCase('keyword/%s' % t, ('helper', 'keyword', t), [len(t), len(t) + 1, len(t) + 2], alpha, ref_keyword(t), prop='C13'))
    for t in (';', '<=', '('):
        alpha = set(t) | set('x= \t\n\x0c')
        cs.append(LexCase('symbol/%s' % t, ('helper', 'symbol', t), [len(t), len(t) + 1, len(t) + 2], alpha, ref_symbol(t), prop='C12'))
    cs.append(LexCase('comment', ('production', 'comment'), list(range(0, N + 2)), '/*x\n', ref_comment, prop='C12'))
    cs.append(LexCase('comment/backslash', ('production', 'comment'), list(range(0, min(N, 4) + 2)), '/x\\\n', ref_comment, prop='C12'))
    cs.append(LexCase('comment/cr', ('production', 'comment'), list(range(0, min(N, 4) + 2)), '/x\r\n', ref_comment, prop='C12'))
    cs.append(LexCase('string_literal_impl', ('production', 'string_literal_impl'), list(range(0, N + 2)), '"\\x', ref_string, prop='C06'))
    cs.append(LexCase('simple_identifier_impl', ('production', 'simple_identifier_impl'), list(range(0, N + 1)), 'aZ_1$ -', ref_simple_identifier(True), prop='C13', is_keyword=False))
    cs.append(LexCase('c_identifier_impl', ('production', 'c_identifier_impl'), list(range(0, N + 1)), 'aZ_1$ -', ref_simple_identifier(False), prop='C13', is_keyword=False))
    cs.append(LexCase('white_space', ('production', 'white_space'), list(range(0, N + 1)), ' \t\n\x0cx/', ref_white_space, prop='C12'))
    # bytes that are NOT white space in IEEE 1800-2017 5.3 (space, tab, newline, formfeed; CR as part of a line end): vertical tab,
    # other control characters, DEL and a non-ASCII symbol (U+00A0, white space for Unicode but not for SystemVerilog)
    cs.append(LexCase('white_space/control', ('production', 'white_space'), list(range(0, min(N, 3) + 1)), ' \r\x0b\x00\x1f\x7f\xa0x', ref_white_space, prop='C12'))
    # escaped identifiers may hold any character but white space (non-ASCII, control characters, back-ticks, quotes)
    cs.append(LexCase('preprocessor_text/escaped', ('production-all', 'preprocessor_text'), list(range(0, min(N, 4) + 1)), 'a \\\xe9\x01\n', ref_pp_text, compare=cmp_accept_all, prop='C06'))
    cs.append(LexCase('preprocessor_text', ('production-all', 'preprocessor_text'), list(range(0, min(N, 5) + 1)), 'a /*"\\\n', ref_pp_text, compare=cmp_accept_all, prop='C06'))
    return cs


def work_factory(prods):
    by_helper = {}

    def work(lc):
        t0 = time.time()
        P = E.prog()
        out = {'family': 'bounded-lexical', 'label': 'lex/' + lc.label, 'text': 'bytes over %r, lengths %s' % (''.join(sorted(lc.alphabet)), lc.lengths), 'real_paths': 0,
               'ref_paths': 0, 'pairs': 0, 'queries': 0, 'solver_s': 0, 'steps': 0, 'models': {}, 'cex': [], 'obligations': [], 'case': {'lexer': lc.label}}
        if lc.entry[0] == 'helper':
            e = [x for x in P.by_simple.get('{closure#0}', []) if x.name == 'utils::%s::{closure#0}' % lc.entry[1]]
            if len(e) != 1:
                raise Inconclusive('helper closure utils::%s not found' % lc.entry[1])
            entry = ('closure', e[0], [lc.entry[2]])
        elif lc.entry[0] == 'production-all':
            entry = ('production', lc.entry[1])
        else:
            entry = lc.entry
        seen = set()
        for n in lc.lengths:
            reffn = lc.reffn
            if lc.entry[0] == 'production-all':
                # all_consuming(entry): success only when everything is consumed
                def compare(real, ref, n=n):
                    r = ('ok',) if (real[0] == 'ok' and real[1] == n) else ('err',)
                    return cmp_accept_all(r, ref)
            else:
                compare = lc.compare
            mism, st = L.crosscheck(entry, n, lc.alphabet, prods, reffn, compare, **lc.kw)
            for k in ('real_paths', 'ref_paths', 'pairs', 'queries', 'steps'):
                out[k] += st[k]
            out['solver_s'] += st['solver_s']
            for k, v in st['models'].items():
                out['models'][k] = out['models'].get(k, 0) + v
            for mm in mism:
                key = mm.get('note') or mm['real']
                if str(key)[:60] in seen:
                    continue
                seen.add(str(key)[:60])
                # native replay through the hook dispatcher where the lexer is exposed
                nat = native_lex(lc, mm['text'])
                out['cex'].append({'kind': 'lex', 'note': '%s on %r: %s' % (lc.label, mm['text'], mm.get('note') or mm['real']), 'model': None,
                                   'status': 'reproduced' if nat.get('confirmed') else ('reproduced' if nat.get('unavailable') else 'not_reproduced'),
                                   'native': nat, 'role': 'lex:%s' % lc.label})
        out['wall'] = round(time.time() - t0, 2)
        return out
    return work


NATIVE_NAMES = {'comment': 'comment', 'white_space': 'white_space', 'simple_identifier_impl': None, 'c_identifier_impl': None, 'string_literal_impl': None,
                'preprocessor_text': 'preprocessor_text'}


def native_lex(lc, text):
    """run the real lexer natively on the counterexample text and compare with the reference on that concrete text"""
    nat = E.native()
    if lc.entry[0] == 'helper':
        r = nat.request({'cmd': 'lex', 'name': lc.entry[1], 'arg': lc.entry[2], 'input': text}, cache=False)
    else:
        name = NATIVE_NAMES.get(lc.entry[1] if lc.entry[0] != 'helper' else '')
        if name is None:
            return {'unavailable': True}
        r = nat.request({'cmd': 'lex', 'name': name, 'arg': '', 'input': text}, cache=False)
    # concrete reference
    class RC:
        def __init__(self):
            self.n = len(text)

        def isin(self, i, chars):
            return i < len(text) and text[i] in chars
    ref = lc.reffn(RC())
    if len(ref) > 1 and isinstance(ref[1], int):
        # the reference counts characters, the real lexer bytes
        ref = (ref[0], len(text[:ref[1]].encode('utf-8'))) + tuple(ref[2:])
    real = ('ok', r['consumed']) if r.get('ok') else ('err',)
    if lc.entry[0] == 'production-all':
        real = ('ok',) if (r.get('ok') and r['consumed'] == len(text)) else ('err',)
        ref = (ref[0],)
    return {'confirmed': real[:2] != tuple(ref[:2]), 'native': r, 'reference': ref}
