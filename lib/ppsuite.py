"""Cross-check of the real preprocessor (MIR, symbolic inputs) against the reference evaluator on
abstract programs.  Both sides produce a partition of the input space (path conditions); on every
satisfiable intersection the observable results must agree -- decided by z3, counterexamples are
replayed natively."""
import json, time
import z3
import engine as E
from engine import PPCase, run_pp_case, concrete_assignment, native_pp
from interp import Explorer, Inconclusive, RustPanic
from models import Models
import ppref
from ppref import RefError, RefState, Tok


def lex_tokens(text):
    """lexical tokens of preprocessor output: comments and strings are single tokens, words
    ([A-Za-z0-9_$] with optional leading backtick or backslash-escaped identifier), other characters single"""
    out = []
    i = 0
    n = len(text)
    in_define = False      # a `define directive extends to the end of its (continued) line: the line end is part of the token stream
    while i < n:
        c = text[i]
        if c in ' \t\n\r\x0b\x0c':
            if c == '\n' and in_define:
                k = i - 1
                if k >= 0 and text[k] == '\r':
                    k -= 1
                if not (k >= 0 and text[k] == '\\'):
                    out.append(('eol', '<end of `define line>'))
                    in_define = False
            i += 1
            continue
        if text.startswith('//', i):
            j = text.find('\n', i)
            if j < 0:
                j = n
            out.append(('com', ' '.join(text[i:j].split())))
            i = j
            continue
        if text.startswith('/*', i):
            j = text.find('*/', i + 2)
            j = n if j < 0 else j + 2
            out.append(('com', ' '.join(text[i:j].split())))
            i = j
            continue
        if text.startswith('`\\`"', i):
            out.append(('sym', '`\\`"'))
            i += 4
            continue
        if text.startswith('`"', i):
            out.append(('sym', '`"'))
            i += 2
            continue
        if c == '"':
            j = i + 1
            while j < n and text[j] != '"':
                if text[j] == '\\':
                    j += 1
                j += 1
            out.append(('str', text[i:j + 1]))
            i = j + 1
            continue
        if c == '\\':
            j = i + 1
            while j < n and text[j] not in ' \t\n\r':
                j += 1
            out.append(('esc', text[i:j]))
            i = j
            continue
        if c.isalnum() or c in '_$`':
            j = i + 1
            while j < n and (text[j].isalnum() or text[j] in '_$'):
                j += 1
            out.append(('word', text[i:j]))
            if text[i:j] == '`define':
                in_define = True
            i = j
            continue
        out.append(('sym', c))
        i += 1
    if in_define:
        out.append(('eol', '<end of `define line>'))
    return out


def tokens_of(text):
    return [t for _, t in lex_tokens(text)]


def ref_tokens(toks):
    parts = []
    for t in toks:
        parts.append(t.text)
        if getattr(t, 'glue', False):
            continue
        parts.append('\n' if ('//' in t.text or t.text.startswith('`define')) else ' ')
    return tokens_of(''.join(parts))


def token_offsets(text):
    """[(token, byte offset)]: whitespace-separated tokens, comments split out as single tokens"""
    out = []
    b = text.encode('utf-8')
    i = 0
    n = len(b)
    ws = b' \t\n\r\x0b\x0c'
    while i < n:
        while i < n and b[i] in ws:
            i += 1
        if i >= n:
            break
        if b[i:i + 2] == b'//':
            j = b.find(b'\n', i)
            j = n if j < 0 else j
            out.append((b[i:j].decode('utf-8'), i))
            i = j
            continue
        if b[i:i + 2] == b'/*':
            j = b.find(b'*/', i + 2)
            j = n if j < 0 else j + 2
            out.append((b[i:j].decode('utf-8'), i))
            i = j
            continue
        j = i
        while j < n and b[j] not in ws and b[j:j + 2] not in (b'//', b'/*'):
            j += 1
        out.append((b[i:j].decode('utf-8'), i))
        i = j
    return out


def flatten_ref_error(variant, name):
    d = 0
    while variant == 'Include':
        d += 1
        variant, name = name
    return variant, name, d


def run_reference(case, items, file, evalfn, max_paths=400, ref_files=None):
    """all reference cases: list of results with .pc and .value = ('ok', toks, table) | ('err', variant, name)"""
    def body(it):
        _, info = E.make_table(it, case)
        st = RefState(it, ppref.table_from_case(case, info))
        st.files = ref_files or {}
        fs = E.make_fs(case)
        st.exists = fs.exists
        st.include_paths = list(case.include_paths)
        strip = E.flag(it, case.strip, 'strip_comments')
        if not isinstance(strip, bool):
            strip = it.decide(strip, 'ref_strip')
        ign = E.flag(it, case.ignore, 'ignore_include')
        if not isinstance(ign, bool):
            ign = it.decide(ign, 'ref_ignore')
        st.rd = E.depth(it, case.resolve_depth, 'resolve_depth')
        st.idp = E.depth(it, case.include_depth, 'include_depth')
        if case.entry == 'str' and ppref._gt_limit(st, st.idp):
            return ('err', 'ExceedRecursiveLimit', None, 0, [])
        try:
            evalfn(st, items, file, strip, ign)
        except RefError as e:
            v, n, d = flatten_ref_error(e.variant, e.name)
            return ('err', v, n, d, list(st.opened))
        return ('ok', st.out, st.table, list(st.opened))
    ex = Explorer(E.prog(), Models(), body, max_paths=max_paths)
    return ex.run(), ex


def joint_model(pcs, extra=None):
    s = z3.Solver()
    s.set('timeout', 20000)
    for c in pcs:
        s.add(c)
    if extra is not None:
        s.add(extra)
    r = s.check()
    if r == z3.unknown:
        raise Inconclusive('solver unknown in cross-check')
    if r == z3.sat:
        m = s.model()
        return {str(d): str(m[d]) for d in m.decls()}
    return None


def err_core(e):
    """innermost error dict + include nesting depth"""
    d = 0
    while e.get('variant') == 'Include':
        e = e['source']
        d += 1
    return e, d


def table_mismatch(real_table, ref_table):
    """z3 condition (or True/False) under which the returned table differs from the reference table.
    real_table: {name: (present, value_py)}; ref_table: {name: (present, value)}"""
    conds = []
    notes = []
    # the predefined SV_COV_* constants are left aside (the implementation re-installs them) unless the program redefined one
    def _builtin(n):
        v = ref_table.get(n)
        return v is not None and isinstance(v[1], dict) and v[1].get('src') == 'builtin'
    names = set(k for k in real_table if not k.startswith('SV_COV_')) | set(k for k in ref_table if not _builtin(k))
    for n in sorted(names):
        rp = real_table.get(n, (False, None))[0]
        fp = ref_table.get(n, (False, None))[0]
        if rp is True and fp is True or rp is False and fp is False:
            pass
        elif isinstance(rp, bool) and isinstance(fp, bool):
            conds.append(True)
            notes.append('presence of %s: real %s, reference %s' % (n, rp, fp))
            continue
        else:
            a = rp if not isinstance(rp, bool) else z3.BoolVal(rp)
            b = fp if not isinstance(fp, bool) else z3.BoolVal(fp)
            c = z3.simplify(z3.Xor(a, b))
            if not z3.is_false(c):
                conds.append(c)
                notes.append('presence of %s differs when %s' % (n, c))
        if rp is False or fp is False:
            continue
        rv = real_table[n][1]
        fv = ref_table[n][1]
        both = z3.And(rp if not isinstance(rp, bool) else z3.BoolVal(rp), fp if not isinstance(fp, bool) else z3.BoolVal(fp))
        for cond, note in value_mismatch(n, rv, fv):
            conds.append(z3.And(both, cond) if cond is not True else both)
            notes.append(note)
    if not conds:
        return False, notes
    if any(c is True for c in conds):
        return True, notes
    return z3.simplify(z3.Or(conds)), notes


def _ref_value_py(name, v):
    if v is None:
        return None
    body = v.get('body')
    origin = None
    if v.get('src') == 'text' and body is not None:
        origin = [v['file'], v['body_off'], v['body_off'] + len(body.encode('utf-8'))]
    return {'identifier': name, 'args': [[p, d] for p, d in (v.get('params') or [])], 'text': body, 'origin': origin,
            'positions_aside': v.get('src') == 'macrobody'}


def _value_equal(r1, f1):
    """returned Define vs reference: identifier, formals/defaults and body text as written in the
    source (blank padding around the body is not significant); the recorded body range must lie
    in the defining file, cover the body and not start before the end of the macro head"""
    if r1 is None or f1 is None:
        return r1 is None and f1 is None
    if r1['identifier'] != f1['identifier'] or [list(a) for a in r1['args']] != [list(a) for a in f1['args']]:
        return False
    rt, ft = r1['text'], f1['text']
    if (rt is None) != (ft is None):
        # "`define X" followed only by blanks: no body
        return (rt or '').strip() == (ft or '').strip() == ''
    if rt is None:
        return True
    if rt.strip() != ft.strip():
        return False
    ro, fo = r1.get('origin'), f1.get('origin')
    if f1.get('positions_aside'):
        return True
    if fo is None:
        return ro is None
    if ro is None or ro[0] != fo[0]:
        return False
    pad = len(rt.encode('utf-8')) - len(rt.lstrip().encode('utf-8'))
    return ro[1] + pad == fo[1] and ro[2] - ro[1] == len(rt.encode('utf-8'))


def value_mismatch(name, rv, fv):
    """list of (cond, note) under which the values differ"""
    out = []
    if isinstance(rv, dict) and 'choice' in rv:
        ralts = rv['choice']
        if isinstance(fv, list) and len(fv) == len(ralts):
            for (rc, r1), (fc, f1) in zip(ralts, fv):
                if not _value_equal(r1, _ref_value_py(name, f1)):
                    out.append((fc, 'value of %s (alternative %s): real %r reference %r' % (name, fc, r1, _ref_value_py(name, f1))))
            return out
        return out
    if isinstance(fv, list):
        for fc, f1 in fv:
            if not _value_equal(rv, _ref_value_py(name, f1)):
                out.append((fc, 'value of %s: real %r reference alt %r' % (name, rv, _ref_value_py(name, f1))))
        return out
    if not _value_equal(rv, _ref_value_py(name, fv)):
        out.append((True, 'value of %s: real %r reference %r' % (name, rv, _ref_value_py(name, fv))))
    return out


def origin_mismatches(case, files_text, real, toks):
    """provenance check of the real origins against reference tokens (after token sequences agree).
    returns list of notes"""
    notes = []
    text = real['text']
    origins = real['origins']
    offs = token_offsets(text)
    # a kept directive is one reference token; align it word by word
    toks2 = []
    for r in toks:
        if r.prov[0] == 'kept' and len(r.text.split()) > 1:
            for w in r.text.split():
                toks2.append(Tok(w, r.prov))
        else:
            toks2.append(r)
    toks = toks2
    if len(offs) != len(toks) or [t for t, _ in offs] != [r.text for r in toks]:
        return []   # layout not whitespace-separated: provenance not comparable token by token
    for (tt, o), ref in zip(offs, toks):
        org = origins[o]
        pv = ref.prov
        if pv[0] == 'src' or pv[0] == 'com':
            # every byte of the token maps to file, off+i
            nb = len(tt.encode('utf-8'))
            for i in range(nb):
                exp = [pv[1], pv[2] + i]
                if origins[o + i] != exp:
                    notes.append('token %r byte %d at output %d: origin %r, expected %r' % (tt, i, o + i, origins[o + i], exp))
                    break
        elif pv[0] == 'kept':
            if org is None or org[0] != pv[1]:
                notes.append('kept directive token %r at output %d: origin %r, expected file %r' % (tt, o, org, pv[1]))
            else:
                src = files_text.get(org[0])
                if src is not None:
                    sb = src.encode('utf-8')
                    nb = tt.encode('utf-8')
                    if sb[org[1]:org[1] + len(nb)] != nb:
                        notes.append('kept directive token %r at output %d maps to %r where the file has %r' % (tt, o, org, sb[org[1]:org[1] + len(nb)].decode('utf-8', 'replace')))
        elif pv[0] == 'synth':
            if org is not None:
                notes.append('synthesised token %r at output %d has origin %r (expected none)' % (tt, o, org))
        elif pv[0] == 'macro':
            if pv[1] is None:
                if org is not None:
                    notes.append('token %r from caller-supplied define at output %d has origin %r (expected none)' % (tt, o, org))
            else:
                if org is None or org[0] != pv[1] or (pv[2] is not None and org[1] < pv[2]):
                    notes.append('macro-expanded token %r at output %d: origin %r, expected file %r offset >= %r' % (tt, o, org, pv[1], pv[2]))
    # every other byte: must have an origin whose source byte equals the output byte, unless it
    # belongs to synthesised text
    tb = text.encode('utf-8')
    covered = [False] * len(tb)
    for (tt, o), ref in zip(offs, toks):
        for i in range(len(tt.encode('utf-8'))):
            covered[o + i] = True
    for i, c in enumerate(covered):
        if c:
            continue
        org = origins[i]
        # neighbouring tokens
        prev_ref = next_ref = None
        for (tt, o), ref in zip(offs, toks):
            if o + len(tt.encode('utf-8')) <= i:
                prev_ref = ref
            elif o > i and next_ref is None:
                next_ref = ref
        inside_macro = prev_ref is not None and next_ref is not None and prev_ref.prov[0] == 'macro' and next_ref.prov == prev_ref.prov
        if inside_macro:
            pv = prev_ref.prov
            if pv[1] is None:
                if org is not None:
                    notes.append('blank inside caller-supplied expansion at output %d has origin %r' % (i, org))
            elif org is None or org[0] != pv[1] or (pv[2] is not None and org[1] < pv[2]):
                notes.append('blank inside macro expansion at output %d: origin %r, expected file %r offset >= %r' % (i, org, pv[1], pv[2]))
            continue
        if org is None:
            # trivia without origin: allowed only directly after synthesised or caller-define text
            prev_synth = prev_ref is not None and (prev_ref.prov[0] == 'synth' or (prev_ref.prov[0] == 'macro' and prev_ref.prov[1] is None))
            if not prev_synth:
                notes.append('whitespace/comment byte at output %d (%r) has no origin' % (i, tb[i:i + 1].decode('utf-8', 'replace')))
        else:
            src = files_text.get(org[0])
            if src is not None:
                sb = src.encode('utf-8')
                if not (0 <= org[1] < len(sb)) or sb[org[1]] != tb[i]:
                    # the blank left in place of a stripped comment maps to the comment's first byte
                    if tb[i:i + 1] == b' ' and 0 <= org[1] < len(sb) and sb[org[1]:org[1] + 2] in (b'//', b'/*'):
                        continue
                    # blanks that end a macro expansion carry the expansion's provenance (file of the
                    # definition, offset not before the body): accepted by the property's statement
                    if prev_ref is not None and prev_ref.prov[0] == 'macro' and prev_ref.prov[1] is not None and \
                            org[0] == prev_ref.prov[1] and (prev_ref.prov[2] is None or org[1] >= prev_ref.prov[2]):
                        continue
                    got = sb[org[1]:org[1] + 1].decode('utf-8', 'replace') if 0 <= org[1] < len(sb) else '<out of range>'
                    notes.append('trivia byte at output %d (%r) maps to %r where the file has %r' % (i, tb[i:i + 1].decode('utf-8', 'replace'), org, got))
    return notes


class CrossResult:
    def __init__(self):
        self.mismatches = []     # dict(kind, note, model, real, ref)
        self.real_paths = 0
        self.ref_paths = 0
        self.pairs = 0
        self.queries = 0
        self.panics = []
        self.obligations = []
        self.explorers = []


def crosscheck(case, items, evalfn, files_text=None, kinds=('tokens', 'table', 'origin'), want_origins=True,
               max_paths=400, ref_files=None):
    """run both sides and compare on all feasible intersections"""
    cr = CrossResult()
    real, ex = run_pp_case(case, want_origins=want_origins and 'origin' in kinds, max_paths=max_paths)
    cr.explorers.append(ex)
    ref, ex2 = run_reference(case, items, case.path, evalfn, max_paths=max_paths, ref_files=ref_files)
    cr.explorers.append(ex2)
    if ex.truncated or ex2.truncated:
        raise Inconclusive('path budget exhausted on case %s' % case.label)
    cr.real_paths = len(real)
    cr.ref_paths = len(ref)
    files_text = dict(files_text or {})
    files_text.setdefault(case.path, case.text)
    for rp in real:
        for ob in rp.obligations:
            cr.obligations.append({'case': case.label, 'ob': ob})
            # a panic obligation that can fail is a candidate violation (never-panics, C08) of whatever
            # property's harness met it; it is replayed natively before it is reported
            cr.mismatches.append({'kind': 'panic', 'note': 'real code can panic: %s (in %s)' % (ob['msg'], ob.get('where', '')),
                                  'model': ob.get('model'), 'real': None, 'ref': None})
        if rp.outcome == 'panic':
            cr.panics.append({'case': case.label, 'panic': rp.panic, 'model': rp.model})
            cr.mismatches.append({'kind': 'panic', 'note': 'real code panics: %s' % rp.panic['msg'], 'model': rp.model,
                                  'real': None, 'ref': None})
            continue
        for fp in ref:
            cr.queries += 1
            m = joint_model(rp.pc + fp.pc)
            if m is None:
                continue
            cr.pairs += 1
            rv = rp.value
            fv = fp.value
            if fv[0] == 'err':
                if rv['ok']:
                    cr.mismatches.append({'kind': 'tokens', 'note': 'reference expects error %s(%s), real returns Ok %r' % (fv[1], fv[2], rv['text']),
                                          'model': m, 'real': rv, 'ref': list(fv[1:4])})
                else:
                    core, d = err_core(rv['error'])
                    got_name = core.get('name', core.get('path'))
                    if core['variant'] != fv[1] or (fv[2] is not None and got_name != fv[2]) or d != fv[3]:
                        cr.mismatches.append({'kind': 'tokens', 'note': 'error differs: real %r, reference %s(%s) under %d Include level(s)' % (rv['error'], fv[1], fv[2], fv[3]),
                                              'model': m, 'real': rv, 'ref': list(fv[1:4])})
                if 'opened' in kinds and rv.get('opened') != fv[4]:
                    cr.mismatches.append({'kind': 'opened', 'note': 'files opened differ: real %r, reference %r' % (rv.get('opened'), fv[4]),
                                          'model': m, 'real': rv, 'ref': fv[4]})
                continue
            if not rv['ok']:
                cr.mismatches.append({'kind': 'tokens', 'note': 'real returns error %r, reference expects tokens %r' % (rv['error'], [t.text for t in fv[1]]),
                                      'model': m, 'real': rv, 'ref': [t.text for t in fv[1]]})
                continue
            rt = tokens_of(rv['text'])
            ft = ref_tokens(fv[1])
            tokens_ok = rt == ft
            if 'tokens' in kinds and not tokens_ok:
                cr.mismatches.append({'kind': 'tokens', 'note': 'tokens differ: real %r, reference %r' % (rt, ft), 'model': m,
                                      'real': rv, 'ref': ft})
            if 'table' in kinds:
                cond, notes = table_mismatch(rv['table'], fv[2])
                if cond is not False:
                    cr.queries += 1
                    mm = joint_model(rp.pc + fp.pc, None if cond is True else cond)
                    if mm is not None:
                        cr.mismatches.append({'kind': 'table', 'note': '; '.join(notes), 'model': mm, 'real': rv,
                                              'ref': {k: str(v) for k, v in fv[2].items()}})
            if 'opened' in kinds and rv.get('opened') != fv[3]:
                cr.mismatches.append({'kind': 'opened', 'note': 'files opened differ: real %r, reference %r' % (rv.get('opened'), fv[3]),
                                      'model': m, 'real': rv, 'ref': fv[3]})
            if 'origin' in kinds and tokens_ok and rv.get('origins') is not None:
                notes = origin_mismatches(case, files_text, rv, fv[1])
                if notes:
                    cr.mismatches.append({'kind': 'origin', 'note': '; '.join(notes[:4]), 'model': m, 'real': rv, 'ref': None,
                                          'all_notes': notes})
    return cr


def replay_real(case, model, expect):
    """native replay of the interpreter's result for one path: returns (agrees, native_response)"""
    conc = concrete_assignment(case, model)
    nat = native_pp(case, conc, once=True)
    if nat.get('crash') or nat.get('timeout'):
        return False, nat, conc
    if expect is None:
        return False, nat, conc
    if expect['ok'] != nat.get('ok'):
        return False, nat, conc
    if expect['ok']:
        agrees = expect['text'] == nat['text']
        if agrees and expect.get('origins') is not None and nat.get('origins') is not None:
            agrees = expect['origins'] == nat['origins']
        return agrees, nat, conc
    return expect['error'].get('variant') == nat['error'].get('variant'), nat, conc
