"""Whole-grammar run of Engine G with the two fixpoints (scope-effect summaries, non-nullability).
Result: per production the final per-path facts.  Cached under build/ keyed by the hash of the
parser MIR dump (derived data: recomputed whenever /repo's sources change)."""
import os, sys, json, time, hashlib, collections, traceback
import multiprocessing as mp
import engine as E
import gprod, proprun
from interp import Inconclusive

ALLOWED_EFFECTS = {
    ('version_specifier', True): {(0, 1)},
    ('keywords_directive', True): {(0, 1)},
    ('endkeywords_directive', True): {(0, -1)},
}
ENTRY_POINTS = ('sv_parser', 'sv_parser_incomplete', 'lib_parser', 'lib_parser_incomplete', 'pp_parser')
_ARGS = {}


def _one(n):
    a = _ARGS
    prods = a['prods']
    try:
        r = gprod.analyze(n, prods[n], summaries=a['summaries'], nonnullable=a['nonnullable'], hard_failing=a.get('hard', ()), max_paths=a['max_paths'], time_cap=a['time_cap'])
    except Inconclusive as e:
        return {'name': n, 'status': 'inconclusive', 'msg': str(e)[:300]}
    except Exception as e:
        return {'name': n, 'status': 'error', 'msg': '%s: %s' % (type(e).__name__, str(e)[:200]), 'tb': traceback.format_exc(limit=-4)[-600:]}
    paths = []
    for p in r['paths']:
        q = {'outcome': p['outcome'], 'ok': p.get('ok'), 'effect': list(p['effect']) if p.get('effect') else None,
             'prefix_kept': p.get('stack_prefix_kept'), 'pushed': p.get('pushed'),
             'v1_bad': p.get('v1_bad'), 'v1_intervals': p.get('v1_intervals'), 'p_out': p.get('p_out'), 'nullable': p.get('nullable'),
             'eof': p.get('eof'), 'failure': p.get('failure'), 'log': p.get('log'), 'kw_called': p.get('kw_called'), 'kw_true_on_ok': p.get('kw_true_on_ok'),
             'obligations': p.get('obligations'), 'panic': p.get('panic'), 'model': p.get('model')}
        paths.append(q)
    return {'name': n, 'status': 'ok', 'paths': paths, 'truncated': r['truncated'], 'queries': r['queries'], 'solver_s': r['solver_s'],
            'steps': r['steps'], 'wall': r['wall'], 'models': r['models']}


def _round(names, prods, summaries, nonnullable, max_paths, time_cap, hard=()):
    global _ARGS
    _ARGS = {'prods': prods, 'summaries': summaries, 'nonnullable': nonnullable, 'max_paths': max_paths, 'time_cap': time_cap, 'hard': hard}
    ctx = mp.get_context('fork')
    out = {}
    if len(names) <= 2 or os.environ.get('VERIF_SERIAL'):
        for n in names:
            out[n] = _one(n)
        return out
    dbg = os.environ.get('GRUN_DEBUG')
    with ctx.Pool(min(16, os.cpu_count() or 4)) as pool:
        for r in pool.imap_unordered(_one, names, chunksize=2):
            out[r['name']] = r
            if dbg:
                print('[grun] done %s (%d/%d) %.1fs' % (r['name'], len(out), len(names), r.get('wall', 0)), file=sys.stderr, flush=True)
    return out


def _one_null(n):
    a = _ARGS
    try:
        return n, gprod.is_nullable(n, a['prods'][n], a['nonnullable'], a.get('hard', ()), a['summaries'])
    except Exception as e:
        return n, None


def _round_null(names, prods, summaries, nonnullable, hard):
    global _ARGS
    _ARGS = {'prods': prods, 'summaries': summaries, 'nonnullable': nonnullable, 'hard': hard}
    out = {}
    if len(names) <= 2 or os.environ.get('VERIF_SERIAL'):
        for n in names:
            out[n] = _one_null(n)[1]
        return out
    ctx = mp.get_context('fork')
    with ctx.Pool(min(16, os.cpu_count() or 4)) as pool:
        for n, v in pool.imap_unordered(_one_null, names, chunksize=4):
            out[n] = v
    return out


def _one_garbage(n):
    a = _ARGS
    try:
        return n, gprod.is_nullable(n, a['prods'][n], a['nonnullable'], a.get('hard', ()), a['summaries'], garbage=a['garbage'])
    except Exception as e:
        return n, None


def _round_garbage(names, prods, summaries, nonnullable, hard, garbage):
    global _ARGS
    _ARGS = {'prods': prods, 'summaries': summaries, 'nonnullable': nonnullable, 'hard': hard, 'garbage': garbage}
    out = {}
    if len(names) <= 2 or os.environ.get('VERIF_SERIAL'):
        for n in names:
            out[n] = _one_garbage(n)[1]
        return out
    ctx = mp.get_context('fork')
    with ctx.Pool(min(16, os.cpu_count() or 4)) as pool:
        for n, v in pool.imap_unordered(_one_garbage, names, chunksize=4):
            out[n] = v
    return out


def callees_map(results):
    cm = {}
    for n, r in results.items():
        if r['status'] != 'ok':
            continue
        cs = cm.setdefault(n, set())
        for p in r['paths']:
            for ev in (p.get('log') or []):
                if len(ev) > 1 and ev[0] in ('ok', 'err', 'many', 'failure', 'inline'):
                    cs.add(ev[1])
    return cm


def callers_of(results, targets):
    cs = set()
    for n, r in results.items():
        if r['status'] != 'ok':
            continue
        for p in r['paths']:
            for ev in (p.get('log') or []):
                if len(ev) > 1 and ev[1] in targets:
                    cs.add(n)
    return cs


def run_grammar(tier='quick', only=None):
    prog = E.prog()
    prods = gprod.productions(prog)
    mirhash = E.BUILD_INFO['mir']['sv-parser-parser']['hash'] + E.BUILD_INFO['mir']['sv-parser-syntaxtree']['hash']
    key = hashlib.sha256((mirhash + tier + open(os.path.join(E.HERE, 'gengine.py')).read() + open(os.path.join(E.HERE, 'gprod.py')).read() +
                          open(os.path.join(E.HERE, 'grun.py')).read() + open(os.path.join(E.VERIF, 'mirsym', 'interp.py')).read() +
                          open(os.path.join(E.VERIF, 'mirsym', 'models.py')).read()).encode()).hexdigest()[:20]
    cpath = os.path.join(E.VERIF, 'build', 'gcache_%s.json' % key)

    def load_cached():
        if only is None and os.path.exists(cpath):
            try:
                d = json.load(open(cpath))
                d['cached'] = True
                return d
            except Exception:
                pass
        return None
    d = load_cached()
    if d is not None:
        return d
    if only is None:
        # several checks started together need the same whole-grammar run: one computes it, the others wait for the cache
        import build
        with build.Lock('grun'):
            d = load_cached()
            if d is not None:
                return d
            return _run_grammar(tier, only, prog, prods, cpath)
    return _run_grammar(tier, only, prog, prods, cpath)


def _run_grammar(tier, only, prog, prods, cpath):
    t0 = time.time()
    names = sorted(prods) if only is None else [n for n in sorted(prods) if any(o in n for o in only)]
    max_paths, time_cap = (800, 6) if tier == 'quick' else (4000, 40)
    rounds = []
    # round 0: no assumptions (every callee effect-free and possibly empty)
    results = _round(names, prods, {}, None, max_paths, time_cap)
    rounds.append({'round': 0, 'analysed': len(names)})
    print('[grun] round 0: %d productions in %.0fs' % (len(names), time.time() - t0), file=sys.stderr, flush=True)
    # scope-effect summaries: only version_specifier's effect is propagated (into keywords_directive); the effects of
    # keywords_directive / endkeywords_directive are the intended persistent ones and are not leaks for their callers
    summaries = {}
    r = results.get('version_specifier')
    if r and r['status'] == 'ok':
        oke = {tuple(p['effect']) for p in r['paths'] if p['outcome'] == 'ok' and p['ok']}
        ere = {tuple(p['effect']) for p in r['paths'] if p['outcome'] == 'ok' and not p['ok']}
        if len(oke) == 1 and len(ere) <= 1:
            summaries['version_specifier'] = {'ok': list(oke)[0], 'err': list(ere)[0] if ere else (0, 0)}
    if summaries:
        redo = sorted(callers_of(results, set(summaries)) & set(names))
        if redo:
            results.update(_round(redo, prods, summaries, None, max_paths, time_cap))
            rounds.append({'round': 'effects', 'analysed': len(redo), 'names': redo[:10]})
    # productions that can return nom::Err::Failure (cut): propagated to callers until stable
    hard = set()
    for it in range(10):
        new_hard = {n for n, r in results.items() if r['status'] == 'ok' and any(p.get('failure') for p in r['paths'] if p['outcome'] == 'ok')}
        if new_hard <= hard:
            break
        hard |= new_hard
        redo = sorted((callers_of(results, hard) - hard) & set(names))
        if not redo:
            break
        results.update(_round(redo, prods, summaries, None, max_paths, time_cap, hard))
        rounds.append({'round': 'hard-failure-%d' % it, 'analysed': len(redo), 'hard': sorted(hard)[:10]})
    # non-nullability fixpoint: dedicated exploration that abandons a path once it provably consumed input
    # (small and complete); only facts proven in earlier rounds are assumed for callees
    nullable = set(names)
    unknown = set()
    for it in range(40):
        nonnull = (set(prods) - nullable) if only is None else (set(prods) - set(names)) | (set(names) - nullable)
        redo = sorted(nullable)
        upd = _round_null(redo, prods, summaries, nonnull, hard)
        new_nullable = {n for n, v in upd.items() if v is not False}
        unknown = {n for n, v in upd.items() if v is None}
        rounds.append({'round': 'nullability-%d' % it, 'analysed': len(redo), 'nullable_after': len(new_nullable), 'budget_exhausted': sorted(unknown)[:10]})
        print('[grun] nullability round %d: analysed %d, possibly nullable %d, budget exhausted %d (%.0fs)' % (it, len(redo), len(new_nullable), len(unknown), time.time() - t0), file=sys.stderr, flush=True)
        if new_nullable == nullable:
            break
        nullable = new_nullable
    # final V1 pass of the productions whose obligations depend on non-nullability of callees
    nonnull = set(prods) - nullable
    # (the *_incomplete start symbols too: whether they can fail depends on loops over sub-parsers that provably consume)
    redo = sorted(n for n, r in results.items() if n in names and r['status'] == 'ok' and
                  (any(p.get('v1_bad') for p in r['paths']) or (n.endswith('_incomplete') and any(p['outcome'] == 'ok' and not p['ok'] for p in r['paths']))))
    if redo:
        results.update(_round(redo, prods, summaries, nonnull, max_paths, time_cap, hard))
        rounds.append({'round': 'v1-with-nonnullability', 'analysed': len(redo)})
    # garbage-first fixpoint (C14): G = productions whose body can succeed having consumed, at its entry position, a byte that
    # starts no token.  Least fixpoint from the empty set: callees outside G are assumed not to consume such a byte (induction on
    # the depth of the finite execution); the helper closures symbol(t)/keyword(t) are covered at their call sites (literal t).
    gnames = [n for n in names if prods[n][0] != 'terminal']
    garbage = set()
    gunknown = set()
    t1 = time.time()
    redo = gnames
    for it in range(30):
        upd = _round_garbage(redo, prods, summaries, nonnull, hard, frozenset(garbage))
        new = {n for n, v in upd.items() if v is not False} - garbage
        gunknown |= {n for n, v in upd.items() if v is None}
        rounds.append({'round': 'garbage-first-%d' % it, 'analysed': len(redo), 'added': sorted(new)[:40]})
        print('[grun] garbage-first round %d: analysed %d, added %d (%.0fs)' % (it, len(redo), len(new), time.time() - t1), file=sys.stderr, flush=True)
        if not new:
            break
        garbage |= new
        redo = sorted((callers_of(results, new) - garbage) & set(gnames))
        if not redo:
            break
    cm = callees_map(results)
    import re, glob
    src_index = {}
    root = os.path.join(os.environ.get('VERIF_REPO', '/repo'), 'sv-parser-parser', 'src')
    for fp in sorted(glob.glob(os.path.join(root, '**', '*.rs'), recursive=True)):
        if os.sep + 'tests' in fp[len(root):]:
            continue
        try:
            for m in re.finditer(r'\bfn\s+(\w+)\s*[(<]', open(fp).read()):
                src_index.setdefault(m.group(1), 'sv-parser-parser/src/' + os.path.relpath(fp, root))
        except Exception:
            pass
    files = {}
    for n in names:
        kind, body, outer = prods[n]
        m = re.search(r'sv-parser-parser/src/[\w/.-]+?\.rs', (getattr(body, 'closure_span', None) or '') + ' ' + body.header)
        if not m:
            try:
                m = re.search(r'sv-parser-parser/src/[\w/.-]+?\.rs', gprod.callees_text(prog, body))
            except Exception:
                m = None
        files[n] = m.group(0) if m else src_index.get(n.split('::')[-1])
    out = {'prod_files': files, 'garbage_consuming': sorted(garbage), 'garbage_unknown': sorted(gunknown), 'callees': {k: sorted(v) for k, v in cm.items()},
           'hard_failing': sorted(hard), 'results': results, 'summaries': {k: {a: list(b) for a, b in v.items()} for k, v in summaries.items()}, 'nullable': sorted(nullable), 'nullability_unknown': sorted(unknown),
           'rounds': rounds, 'wall': round(time.time() - t0, 1), 'tier': tier, 'cached': False, 'n_productions': len(names)}
    if only is None:
        try:
            with open(cpath + '.tmp', 'w') as fh:
                json.dump(out, fh)
            os.replace(cpath + '.tmp', cpath)
            # keep only the newest few caches
            caches = sorted([os.path.join(E.VERIF, 'build', f) for f in os.listdir(os.path.join(E.VERIF, 'build')) if f.startswith('gcache_')], key=os.path.getmtime)
            for old in caches[:-4]:
                os.remove(old)
        except Exception:
            pass
    return out
