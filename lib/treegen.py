"""Bounded syntax-tree values of any node type, generated from the type tables of /repo's sources,
with an independent reference walk (pre-order by declared field order).  Shape choices (Option
present/absent, Vec length, enum variant of the node under test) are solver variables."""
import z3
from values import Struct, Enum, Tup, VecV, BoxV
from tables import parse_type, subst

TRANSPARENT_STRUCTS = ('Paren', 'Brace', 'Bracket', 'ApostropheBrace', 'List')


class RefT:
    """reference tree node: kind = RefNode variant name (or 'Locate'); transparent containers are flattened"""
    __slots__ = ('kind', 'children', 'offset')

    def __init__(self, kind, children=None, offset=None):
        self.kind = kind
        self.children = children or []
        self.offset = offset

    def preorder(self, out=None):
        out = [] if out is None else out
        out.append(self.label())
        for c in self.children:
            c.preorder(out)
        return out

    def label(self):
        return 'Locate@%d' % self.offset if self.kind == 'Locate' else self.kind

    def events(self, out=None):
        out = [] if out is None else out
        out.append('E ' + self.label())
        for c in self.children:
            c.events(out)
        out.append('L ' + self.label())
        return out

    def leaves(self, under_ws=False, out=None):
        out = [] if out is None else out
        if self.kind == 'Locate':
            out.append((self.offset, under_ws))
        for c in self.children:
            c.leaves(under_ws or self.kind == 'WhiteSpace', out)
        return out


class TreeGen:
    def __init__(self, td):
        self.td = td
        self.visible = set(td.enums['RefNode'])
        self._ft = {}
        self._payload = {}
        self.mind = {}
        self._compute_mindepth()

    # -- type helpers
    def fields(self, name):
        r = self._ft.get(name)
        if r is None:
            r = [(fn, parse_type(ft)) for fn, ft in self.td.structs[name]]
            self._ft[name] = r
        return r

    def payload(self, enum, variant):
        k = (enum, variant)
        r = self._payload.get(k)
        if r is None:
            r = [parse_type(t) for t in self.td.enum_payload[k]]
            self._payload[k] = r
        return r

    def _depth_of(self, ty, env):
        k = ty[0]
        if k == 'tuple':
            return max([self._depth_of(t, env) for t in ty[1]] + [0])
        if k == 'ref':
            return self._depth_of(ty[1], env)
        base, args = ty[1], ty[2]
        if not args and base in env:
            return self._depth_of(env[base], {})
        if base in ('Vec', 'Option'):
            return 0          # can be empty / None
        if base == 'Box':
            return self._depth_of(subst(args[0], env), {})
        if base in ('usize', 'u32'):
            return 0
        if base == 'Locate':
            return 0
        if base in self.td.structs and base in TRANSPARENT_STRUCTS:
            params = self.td.generics.get(base, [])
            env2 = {p: subst(a, env) for p, a in zip(params, args)}
            return max([self._depth_of(ft, env2) for _, ft in self.fields(base)] + [0])
        return self.mind.get(base, 10 ** 6)

    def _compute_mindepth(self):
        td = self.td
        names = [n for n in td.enums['RefNode'] if n != 'Locate']
        for n in names:
            self.mind[n] = 10 ** 6
        changed = True
        while changed:
            changed = False
            for n in names:
                if n in td.structs:
                    d = 1 + max([self._depth_of(ft, {}) for _, ft in self.fields(n)] + [0])
                elif n in td.enums:
                    d = 1 + min(max([self._depth_of(t, {}) for t in self.payload(n, v)] + [0]) for v in td.enums[n])
                else:
                    continue
                if d < self.mind[n]:
                    self.mind[n] = d
                    changed = True

    # -- generation
    def gen_root(self, name, chooser, budget=3):
        """value of node type `name` with its top-level shape chosen by `chooser(label, n_alternatives, default)`"""
        self.counter = 0
        self.chooser = chooser
        return self._node(name, {}, 0, budget)

    def _locate(self):
        off = self.counter
        self.counter += 1
        return Struct('Locate', [off, 1 + off // 4, 1]), RefT('Locate', [], off)

    def _node(self, name, env, depth, budget):
        td = self.td
        if name == 'Locate':
            return self._locate()
        if name in td.structs:
            vals, refs = [], []
            for fn, ft in self.fields(name):
                v, rs = self._value(ft, env if name in TRANSPARENT_STRUCTS else {}, depth + 1, budget, '%s.%s' % (name, fn))
                vals.append(v)
                refs.extend(rs)
            val = Struct(name, vals)
            return val, RefT(name, refs)
        if name in td.enums:
            variants = td.enums[name]
            if depth == 0:
                k = self.chooser('variant:' + name, len(variants), 0)
            else:
                # cheapest variant that still fits the budget
                costs = [max([self._depth_of(t, {}) for t in self.payload(name, v)] + [0]) for v in variants]
                k = min(range(len(variants)), key=lambda i: costs[i])
            v = variants[k]
            vals, refs = [], []
            for i, pt in enumerate(self.payload(name, v)):
                x, rs = self._value(pt, {}, depth + 1, budget, '%s::%s.%d' % (name, v, i))
                vals.append(x)
                refs.extend(rs)
            return Enum(name, v, td.variant_index(name, v), vals), RefT(name, refs)
        raise KeyError(name)

    def _value(self, ty, env, depth, budget, label):
        """returns (value, [reference children]) -- transparent types contribute their children directly"""
        k = ty[0]
        if k == 'tuple':
            vals, refs = [], []
            for i, t in enumerate(ty[1]):
                v, rs = self._value(t, env, depth, budget, '%s.%d' % (label, i))
                vals.append(v)
                refs.extend(rs)
            return Tup(vals), refs
        if k == 'ref':
            return self._value(ty[1], env, depth, budget, label)
        base, args = ty[1], ty[2]
        if not args and base in env:
            return self._value(env[base], {}, depth, budget, label)
        if base in ('usize', 'u32'):
            return 0, []
        if base == 'Box':
            v, rs = self._value(subst(args[0], env), {}, depth, budget, label)
            return BoxV(v), rs
        if base == 'Option':
            inner = subst(args[0], env)
            fits = depth + self._depth_of(inner, {}) <= budget + 1
            if depth == 1:
                # top-level fields of the node under test: present by default (the fullest shape has every field)
                present = self.chooser('opt:' + label, 2, 1) == 1
            else:
                present = fits and depth <= 2
            if not present:
                return Enum('Option', 'None', 0, []), []
            v, rs = self._value(inner, {}, depth, budget, label)
            return Enum('Option', 'Some', 1, [v]), rs
        if base == 'Vec':
            inner = subst(args[0], env)
            fits = depth + self._depth_of(inner, {}) <= budget + 1
            if depth == 1:
                n = self.chooser('vec:' + label, 3, 2)
            else:
                n = 1 if (fits and depth <= 2) else 0
            vals, refs = [], []
            for i in range(n):
                v, rs = self._value(inner, {}, depth, budget, '%s[%d]' % (label, i))
                vals.append(v)
                refs.extend(rs)
            return VecV(vals), refs
        if base == 'Locate':
            v, r = self._locate()
            return v, [r]
        if base in TRANSPARENT_STRUCTS:
            params = self.td.generics.get(base, [])
            env2 = {p: subst(a, env) for p, a in zip(params, args)}
            vals, refs = [], []
            for fn, ft in self.fields(base):
                v, rs = self._value(ft, env2, depth, budget, '%s.%s' % (label, base))
                vals.append(v)
                refs.extend(rs)
            return Struct(base, vals), refs
        v, r = self._node(base, {}, depth, budget)
        return v, [r]
