"""Families of abstract preprocessor programs (exhaustive small shapes + seeded larger ones)."""
import itertools, random
import copy
from ppref import T, Com, Def, Undef, UndefAll, Use, Cond, Inc, Kept, Layout

ALT_BODIES = {'A': [None, {'text': 'va'}], 'B': [None, {'text': 'vb'}], 'C': [None, {'text': 'vc'}]}


class Prog:
    def __init__(self, label, items, names, files=None):
        self.label = label
        self.items = items
        self.names = names      # symbolic names of the initial table
        self.files = files or {}


def crlf_variant(pg):
    """the same program rendered with CR LF line ends (Windows sources): same tokens, table and errors expected"""
    q = copy.deepcopy(pg)
    q.label = pg.label + '/crlf'
    q.items = [Layout(crlf=True)] + q.items
    if getattr(q, 'files', None):
        q.files = {k: ([Layout(crlf=True)] + v if isinstance(v, list) else v) for k, v in q.files.items()}
        if hasattr(q, 'ref_files'):
            q.ref_files = {k: ([Layout(crlf=True)] + v if isinstance(v, list) else v) for k, v in q.ref_files.items()}
    return q


def with_crlf(progs, pick):
    """progs + CR LF variants of those whose label is in `pick` (or every len(progs)//pick-th when pick is an int)"""
    if isinstance(pick, int):
        chosen = progs[::max(1, len(progs) // pick)][:pick]
    else:
        chosen = [p for p in progs if p.label in pick]
    return progs + [crlf_variant(p) for p in chosen]


def _fresh():
    c = itertools.count(1)
    return lambda p='t': '%s%d' % (p, next(c))


def cond_programs(tier, seed):
    """conditional-compilation programs.  quick: chains of 1-2 branches, one optional effect item;
    thorough: up to 3 branches, nesting depth 2, seeded extras."""
    progs = []
    cond_names = ['A', 'B', '__LINE__']
    maxbr = 2 if tier == 'quick' else 3
    pres = [('none', lambda: []), ('defA', lambda: [Def('A')]), ('defAv', lambda: [Def('A', 'wa')]),
            ('undefA', lambda: [Undef('A')]), ('undefall', lambda: [UndefAll()])]
    for pname, pre in pres:
        for neg in (False, True):
            for nb in range(1, maxbr + 1):
                for names in itertools.product(cond_names, repeat=nb):
                    if names.count('__LINE__') > 1:
                        continue
                    if tier == 'quick' and pname not in ('none', 'defA') and nb > 1 and names[0] != 'A':
                        continue
                    for els in (False, True):
                        fr = _fresh()
                        branches = [(n, [T('b%d' % i, '\n')]) for i, n in enumerate(names)]
                        items = pre() + [Cond(neg, branches, [T('e0', '\n')] if els else None), T('z', '\n')]
                        label = 'cond/%s/%s/%s/%s' % (pname, 'ifndef' if neg else 'ifdef', '-'.join(names), 'else' if els else 'noelse')
                        progs.append(Prog(label, items, ['A', 'B']))
    # effects inside branches: definitions / undefs / undefined usages in dead code, observed afterwards
    effects = [('defB', lambda: Def('B', 'wb')), ('undefA', lambda: Undef('A')), ('useC', lambda: Use('C', None, '\n')),
               ('undefall', lambda: UndefAll()), ('defA0', lambda: Def('A'))]
    for ename, eff in effects:
        for neg in (False, True):
            for where in (0, 1, 2):      # if-branch, elsif-branch, else-branch
                branches = [('A', [T('b0', '\n')]), ('B', [T('b1', '\n')])]
                els = [T('e0', '\n')]
                tgt = branches[where][1] if where < 2 else els
                tgt.insert(0, eff())
                obs = [Cond(False, [('B', [T('yB', '\n')])], [T('nB', '\n')]), Cond(False, [('A', [T('yA', '\n')])], [T('nA', '\n')])]
                items = [Cond(neg, branches, els)] + obs
                progs.append(Prog('effect/%s/%s/branch%d' % (ename, 'ifndef' if neg else 'ifdef', where), items, ['A', 'B']))
    # usages of possibly-defined macros next to conditionals
    for neg in (False, True):
        items = [Use('A', None, ' '), T('m', '\n'), Cond(neg, [('B', [Use('A', None, '\n')])], [T('e', '\n')]), T('z', '\n')]
        progs.append(Prog('use/%s' % ('ifndef' if neg else 'ifdef'), items, ['A', 'B']))
    # empty branch bodies, consecutive chains, nested chains inside dead/live branches (bodies may be empty)
    bodies = [lambda k: [], lambda k: [T('t%d' % k, '\n')]]
    k = 0
    for neg1, neg2 in itertools.product((False, True), repeat=2):
        for b1, b2, b3 in itertools.product((0, 1), repeat=3):
            k += 1
            first = Cond(neg1, [('A', bodies[b1](1))], bodies[b2](2) if b3 else None)
            inner = Cond(neg2, [('B', bodies[b2](3))], bodies[b1](4))
            second = Cond(neg2, [('B', [T('o1', '\n'), inner, T('o2', '\n')])], [T('e1', '\n'), Cond(neg1, [('A', bodies[b3](5))], None), T('e2', '\n')])
            progs.append(Prog('empty/%d%d/%d%d%d' % (neg1, neg2, b1, b2, b3), [first, T('m', '\n'), second, T('z', '\n')], ['A', 'B']))
    # definitions through macro bodies observed by conditionals
    progs.append(Prog('via-macro/undef', [Def('DROP', '`undef A', body_items=[Undef('A')]), Use('DROP', None, '\n'),
                                          Cond(False, [('A', [T('yA', '\n')])], [T('nA', '\n')])], ['A', 'B']))
    progs.append(Prog('via-macro/define', [Def('MK', '`define B zz', body_items=[Def('B', 'zz')]), Use('MK', None, '\n'),
                                           Cond(True, [('B', [T('nB', '\n')])], [T('yB', '\n')])], ['A', 'B']))
    progs.append(Prog('via-macro/in-dead', [Def('MK', '`define B zz', body_items=[Def('B', 'zz')]), Cond(False, [('A', [Use('MK', None, '\n')])], None),
                                            Cond(False, [('B', [T('yB', '\n')])], [T('nB', '\n')])], ['A', 'B']))
    # text in parentheses right after an object-like macro usage is part of the expansion: conditionals, definitions and usages
    # standing there are preprocessed with it
    progs.append(Prog('via-macro/paren-cond', [Def('LOG', 'lg'), T('i', ' '), Use('LOG', None, '\n', paren_items=[
        Cond(False, [('A', [T('1', ' ')])], [T('0', ' ')], end_sep=' ', compact=True)]), T('z', '\n')], ['A']))
    progs.append(Prog('via-macro/paren-define', [Def('LOG', 'lg'), Use('LOG', None, '\n', paren_items=[T('p', '\n'), Def('B', 'zz'), T('q', ' ')]),
                                                 Cond(False, [('B', [T('yB', '\n')])], [T('nB', '\n')])], ['A', 'B']))
    progs.append(Prog('via-macro/paren-use', [Def('LOG', 'lg'), Def('W', 'w8'), Use('LOG', None, '\n', paren_items=[Use('W', None, ' ')]), T('z', '\n')], ['A']))
    # the predefined coverage constants are ordinary table entries: usable, redefinable, and a redefinition stays in force through
    # later expansions and conditionals
    progs.append(Prog('via-macro/sv-cov', [Use('SV_COV_CHECK', None, '\n'), Def('SV_COV_START', 's100'), Use('SV_COV_START', None, ' '), Use('SV_COV_START', None, '\n'),
                                           Def('M', '`SV_COV_START', body_items=[Use('SV_COV_START', None, '')]), Use('M', None, ' '), Use('SV_COV_START', None, '\n'),
                                           Cond(False, [('SV_COV_HIER', [T('yh', '\n')])], [T('nh', '\n')])], ['A']))
    if tier == 'thorough':
        rnd = random.Random(seed)
        # nesting depth 2, exhaustive over inner/outer names for ifdef/ifndef
        for n1, n2, neg1, neg2, pos in itertools.product(['A', 'B'], ['A', 'B', '__FILE__'], (False, True), (False, True), (0, 1)):
            inner = Cond(neg2, [(n2, [T('i0', '\n')]), ('A', [T('i1', '\n')])], [T('ie', '\n')])
            br = [(n1, [T('o0', '\n')]), ('B', [T('o1', '\n')])]
            els = [T('oe', '\n')]
            (br[pos][1]).append(inner)
            items = [Cond(neg1, br, els), T('z', '\n')]
            progs.append(Prog('nest/%s%s/%s%s/%d' % ('!' if neg1 else '', n1, '!' if neg2 else '', n2, pos), items, ['A', 'B']))
        for k in range(40):
            progs.append(random_cond_prog(rnd, k))
    return with_crlf(progs, 4)


def random_cond_prog(rnd, k, depth=2):
    ctr = itertools.count()

    def tok():
        return T('r%d' % next(ctr), rnd.choice([' ', '\n']))

    def items(d, n):
        out = []
        for _ in range(n):
            c = rnd.random()
            if c < 0.35:
                out.append(tok())
            elif c < 0.45:
                out.append(Def(rnd.choice('AB'), rnd.choice([None, 'w%d' % next(ctr)])))
            elif c < 0.52:
                out.append(Undef(rnd.choice('AB')))
            elif c < 0.55:
                out.append(UndefAll())
            elif c < 0.62 and d > 0:
                out.append(Use(rnd.choice('AB'), None, '\n'))
            elif d > 0:
                nb = rnd.randint(1, 3)
                names = [rnd.choice(['A', 'B', 'A', 'B', '__LINE__']) for _ in range(nb)]
                out.append(Cond(rnd.random() < 0.5, [(n, items(d - 1, rnd.randint(1, 2))) for n in names],
                                items(d - 1, rnd.randint(1, 2)) if rnd.random() < 0.6 else None))
            else:
                out.append(tok())
        out.append(tok())
        return out
    return Prog('rand/%d' % k, items(depth, rnd.randint(2, 4)), ['A', 'B'])


KEPT_DIRECTIVES = ['`timescale 1ns/1ps', '`default_nettype none', '`celldefine', '`endcelldefine',
                   '`unconnected_drive pull0', '`nounconnected_drive', '`resetall', '`line 3 "f.v" 1',
                   '`pragma foo', '`begin_keywords "1800-2012"', '`end_keywords']


def site_programs(tier, seed):
    """texts exercising every emission site of the preprocessor (origin map, C03/C06/C18)"""
    progs = []
    # plain text with varied separators
    for i, sep in enumerate([' ', '  ', '\n', '\t', ' \n  ']):
        progs.append(Prog('site/plain/%d' % i, [T('a1', sep), T('bb2', sep), T('c3', '\n')], ['A']))
    # kept directives between tokens
    for i, kd in enumerate(KEPT_DIRECTIVES):
        progs.append(Prog('site/kept/%d' % i, [T('p', '\n'), Kept(kd), T('q', '\n')], ['A']))
    progs.append(Prog('site/undef', [T('p', '\n'), Undef('A'), T('q', ' '), UndefAll(), T('r', '\n')], ['A']))
    progs.append(Prog('site/define', [T('p', '\n'), Def('B', 'x1 y2'), T('q', ' '), Def('A'), T('r', '\n')], ['A']))
    # conditionals with text on the same line after `endif / trailing blanks
    for i, es in enumerate(['\n', '   ', '  \n', ' ']):
        for neg in (False, True):
            progs.append(Prog('site/endif/%d/%s' % (i, 'n' if neg else 'p'),
                              [T('h', '\n'), Cond(neg, [('A', [T('a', '\n')])], [T('e', '\n')], end_sep=es), T('q', '\n')], ['A']))
            progs.append(Prog('site/endif-noelse/%d/%s' % (i, 'n' if neg else 'p'),
                              [Cond(neg, [('A', [T('a', '\n')])], None, end_sep=es), T('q', '\n')], ['A']))
    # macro usages: object-like, from caller table / defined in text, empty body, followed by blanks/text
    for i, sep in enumerate([' ', '    ', '\n', '  \n']):
        progs.append(Prog('site/use-caller/%d' % i, [T('h', ' '), Use('A', None, sep), T('q', '\n')], ['A']))
        progs.append(Prog('site/use-text/%d' % i, [Def('M', 'm1  m2'), T('h', ' '), Use('M', None, sep), T('q', '\n')], ['A']))
        progs.append(Prog('site/use-empty/%d' % i, [Def('M'), T('h', ' '), Use('M', None, sep), T('q', '\n')], ['A']))
        progs.append(Prog('site/use-paren/%d' % i, [Def('M', 'm1'), T('h', ' '), Use('M', [], sep), T('q', '\n')], ['A']))
    # macro whose body is an empty conditional (expansion is the empty string)
    progs.append(Prog('site/use-emptycond', [Def('E', '`ifdef ZZ `endif', body_items=[Cond(False, [('ZZ', [])])]), Use('E', None, '    '), T('abc', '\n')], ['A']))
    # redefinition (same and different text) between uses: the expansion carries the provenance of the definition in force
    progs.append(Prog('site/redefine-same', [Def('M', 'm1'), Use('M', None, ' '), T('k', '\n'), Def('M', 'm1'), Use('M', None, ' '), T('q', '\n')], ['A']))
    progs.append(Prog('site/redefine-other', [Def('M', 'm1'), Use('M', None, ' '), T('k', '\n'), Def('M', 'm22'), Use('M', None, ' '), T('q', '\n')], ['A']))
    progs.append(Prog('site/define-over-caller', [Def('A', 'va'), Use('A', None, ' '), T('q', '\n')], ['A']))
    progs.append(Prog('site/position', [T('h', ' '), Use('__LINE__', None, ' '), T('m', '\n'), Use('__FILE__', None, ' '), T('q', '\n')], ['A']))
    # comments
    progs.append(Prog('site/comments', [T('a', ' '), Com('// c1'), T('b', ' '), Com('/* c2 */', ' '), T('c', '\n'), Com('/* m\n l */'), T('d', '\n')], ['A']))
    return with_crlf(progs, 3)


def table_programs(tier, seed):
    """define/undef/redefine patterns for the returned table (C11) -- also through macro bodies"""
    progs = []
    progs.append(Prog('table/def-plain', [Def('M', 'x1'), Def('N'), T('t', '\n')], ['A', 'B']))
    progs.append(Prog('table/def-args', [Def('F', 'p+q', [('p', None), ('q', '3')]), Def('G', 'r', [('r', '"s,t"')]), T('t', '\n')], ['A']))
    progs.append(Prog('table/redefine', [Def('A', 'n1'), T('t', ' '), Def('A', 'n2 n3'), T('u', '\n')], ['A']))
    progs.append(Prog('table/undef-caller', [Undef('A'), T('t', '\n')], ['A', 'B']))
    progs.append(Prog('table/undef-undefined', [Undef('Q'), T('t', '\n')], ['A']))
    progs.append(Prog('table/undefineall', [UndefAll(), T('t', '\n')], ['A', 'B']))
    progs.append(Prog('table/undefineall-redefine', [Def('M', 'x'), UndefAll(), Def('N', 'y'), T('t', '\n')], ['A', 'B']))
    progs.append(Prog('table/def-in-dead', [Cond(False, [('A', [Def('M', 'x')])], [Def('N', 'y')]), T('t', '\n')], ['A', 'B']))
    progs.append(Prog('table/undef-in-dead', [Cond(True, [('A', [Undef('B')])], [UndefAll()]), T('t', '\n')], ['A', 'B']))
    progs.append(Prog('table/predefined', [Def('__LINE__', '5'), Undef('__FILE__'), T('t', '\n')], ['A']))
    # definitions / undefinitions reached through a macro body
    progs.append(Prog('table/undef-via-macro', [Def('DROP', '`undef A', body_items=[Undef('A')]), Use('DROP', None, '\n'),
                                                 Cond(False, [('A', [T('yA', '\n')])], [T('nA', '\n')])], ['A', 'B']))
    progs.append(Prog('table/undefall-via-macro', [Def('DROP', '`undefineall', body_items=[UndefAll()]), Use('DROP', None, '\n'),
                                                   Cond(False, [('B', [T('yB', '\n')])], [T('nB', '\n')])], ['A', 'B']))
    progs.append(Prog('table/def-via-macro', [Def('MK', '`define B zz', body_items=[Def('B', 'zz')]), Use('MK', None, '\n'),
                                               Cond(False, [('B', [T('yB', '\n')])], [T('nB', '\n')])], ['A', 'B']))
    progs.append(Prog('table/sv-cov-redefine', [Def('SV_COV_STOP', 's7'), Def('M', '`SV_COV_STOP', body_items=[Use('SV_COV_STOP', None, '')]), Use('M', None, '\n'),
                                                Use('SV_COV_STOP', None, '\n')], ['A']))
    # macro names written as escaped identifiers: \\A and A name the same macro at every site (define, undef, conditionals, usage)
    progs.append(Prog('table/undef-escaped', [Def('M', 'x1'), Undef('\\M'), Undef('\\A'), Cond(False, [('A', [T('ya', '\n')])], [T('na', '\n')]),
                                              Cond(False, [('M', [T('ym', '\n')])], [T('nm', '\n')])], ['A']))
    progs.append(Prog('table/def-escaped', [Def('\\M', 'x1'), Use('M', None, '\n'), Cond(True, [('\\M', [T('nm', '\n')])], [T('ym', '\n')]),
                                            Cond(False, [('\\A', [T('ya', '\n')]), ('\\M', [T('em', '\n')])], None)], ['A']))
    return with_crlf(progs, ('table/def-plain', 'table/redefine', 'table/def-args', 'table/undef-via-macro'))


def ws_programs():
    """white space that belongs to a directive is the only separator of two tokens (a`ifdef A `endif b): it is white space, not a
    comment: it must survive strip_comments (C18) and the surviving text must stay token for token the text of the branch (C04)"""
    progs = []
    progs.append(Prog('ws/cond-empty', [T('a', ''), Cond(False, [('A', [])], None, end_sep=' ', compact=True), T('b', '\n')], ['A']))
    progs.append(Prog('ws/cond-taken', [T('a', ''), Cond(False, [('A', [T('x', '')])], [T('y', '')], end_sep=' ', compact=True), T('b', '\n')], ['A']))
    progs.append(Prog('ws/cond-neg', [T('a', ''), Cond(True, [('A', [T('x', '')])], None, end_sep='\n', compact=True), T('b', '\n')], ['A']))
    progs.append(Prog('ws/cond-spaced', [T('a', ' '), Cond(False, [('A', [T('x', ' ')]), ('B', [T('w', ' ')])], [T('y', ' ')], end_sep=' ', compact=True), T('b', '\n')], ['A', 'B']))
    progs.append(Prog('ws/undef', [T('a', ''), Undef('A'), T('b', ' '), UndefAll(), T('c', '\n')], ['A']))
    # the white space after the usage of a macro that expands to nothing is still there
    progs.append(Prog('ws/use-nobody', [Def('E'), T('a', ''), Use('E', None, ' '), T('b', ''), Use('E', None, '\n'), T('c', ' '), Use('E', None, ''), T(';', '\n')], ['A']))
    progs.append(Prog('ws/kept', [T('a', ''), Kept('`resetall'), T('b', '\n')], ['A']))
    return progs


def comment_programs(tier, seed):
    """comments as sole separators / next to directives and usages (C18)"""
    progs = []
    progs.append(Prog('com/sole-sep', [T('a', ''), Com('/* c */', ''), T('b', '\n')], ['A']))
    progs.append(Prog('com/line', [T('a', ' '), Com('// c1 c2'), T('b', '\n')], ['A']))
    progs.append(Prog('com/after-ifdef', [Cond(False, [('A', [Com('// in a'), T('x', '\n')])], [Com('/* in e */'), T('y', '\n')]), Com('// tail'), T('z', '\n')], ['A']))
    progs.append(Prog('com/next-to-use', [Com('/* l */', ''), Use('A', None, ''), Com('/* r */', ' '), T('z', '\n')], ['A']))
    progs.append(Prog('com/in-define-body', [Def('M', 'm1 /* keep */ m2', body_items=[T('m1', ' '), Com('/* keep */', ' '), T('m2', '')]), T('a', ' '), Use('M', None, ' '), Com('// t'), T('z', '\n')], ['A']))
    # a comment is the first / last thing of a macro body and the usages touch their neighbours: the blank that replaces a stripped
    # comment is the only separator in the expansion
    progs.append(Prog('com/macro-body-edge', [Def('M', 'x/*c*/', body_items=[T('x', ''), Com('/*c*/', '')]), Use('M', None, ''), Use('M', None, '\n'),
                                              Def('N', '/*d*/y', body_items=[Com('/*d*/', ''), T('y', '')]), T('k', ''), Use('N', None, '\n')], ['A']))
    # the line end after a usage matters: the expansion is a `define, the next line must not become part of it
    progs.append(Prog('com/usage-line-end', [Def('MK', '`define W w8', body_items=[Def('W', 'w8')]), Use('MK', None, '\n'), T('wire', ' '), Use('W', None, '\n'),
                                             Cond(False, [('W', [T('yW', '\n')])], [T('nW', '\n')])], ['A']))
    progs.append(Prog('com/kept', [Kept('`timescale 1ns/1ps'), Com('// after kept'), T('q', '\n')], ['A']))
    progs.append(Prog('com/undef', [Undef('A'), Com('// c'), T('q', ' '), Com('/* d */', ' '), UndefAll(), T('r', '\n')], ['A']))
    progs.append(Prog('com/multi', [Com('/* a\n b */'), T('x', ' '), Com('/**/', ''), T('y', '\n'), Com('//'), T('z', '\n')], ['A']))
    progs += ws_programs()
    return with_crlf(progs, ('com/line', 'com/multi', 'com/in-define-body', 'com/after-ifdef'))


class IncProg(Prog):
    def __init__(self, label, items, names, files, exists=None, include_paths=('p1', 'p2'), ignore=False, invalid=()):
        Prog.__init__(self, label, items, names, files)
        self.exists = exists or {}         # path -> True | False | 'sym'   (default 'sym')
        self.include_paths = list(include_paths)
        self.ignore = ignore
        self.invalid = set(invalid)        # paths whose content is not valid UTF-8
        self.ref_files = dict(files)
        for p in self.invalid:
            self.ref_files[p] = 'INVALID_UTF8'


def include_programs(tier, seed):
    progs = []
    F = lambda tok: [T(tok, '\n')]
    # search order: cwd, then include paths in order; both quoting styles; both path orders
    for style in ('"', '<'):
        for ips in (('p1', 'p2'), ('p2', 'p1')):
            files = {'f.svh': F('fc'), 'p1/f.svh': F('f1'), 'p2/f.svh': F('f2')}
            progs.append(IncProg('inc/search/%s/%s' % ('q' if style == '"' else 'a', '-'.join(ips)),
                                 [T('a', '\n'), Inc('f.svh', style), T('z', '\n')], ['A'], files, include_paths=ips))
    progs.append(IncProg('inc/absolute', [T('a', '\n'), Inc('/abs/f.svh'), T('z', '\n')], ['A'],
                         {'/abs/f.svh': F('fa'), 'p1//abs/f.svh': F('bad')}, include_paths=('p1',)))
    progs.append(IncProg('inc/nopaths', [T('a', '\n'), Inc('f.svh'), T('z', '\n')], ['A'], {'f.svh': F('fc')}, include_paths=()))
    # defines flow in and out
    progs.append(IncProg('inc/flow-in', [Def('M', 'm1'), Inc('f.svh'), T('z', '\n')], ['A'],
                         {'f.svh': [Use('M', None, '\n'), Cond(False, [('A', [T('ya', '\n')])], [T('na', '\n')])]}, exists={'f.svh': True}))
    progs.append(IncProg('inc/flow-out-def', [Inc('f.svh'), Use('N', None, '\n'), Cond(False, [('B', [T('yb', '\n')])], [T('nb', '\n')])], ['A', 'B'],
                         {'f.svh': [Def('N', 'n1'), Def('B')]}, exists={'f.svh': True}))
    progs.append(IncProg('inc/flow-out-undef', [Inc('f.svh'), Cond(False, [('A', [T('ya', '\n')])], [T('na', '\n')])], ['A', 'B'],
                         {'f.svh': [Undef('A'), T('k', '\n')]}, exists={'f.svh': True}))
    progs.append(IncProg('inc/flow-out-undefall', [Def('M', 'm1'), Inc('f.svh'), Cond(False, [('M', [T('ym', '\n')])], [T('nm', '\n')]),
                                                   Cond(False, [('A', [T('ya', '\n')])], [T('na', '\n')])], ['A'],
                         {'f.svh': [UndefAll(), T('k', '\n')]}, exists={'f.svh': True}))
    # nesting and same file twice
    progs.append(IncProg('inc/nested', [T('a', '\n'), Inc('f.svh'), Use('G', None, '\n'), T('z', '\n')], ['A'],
                         {'f.svh': [T('f0', '\n'), Inc('g.svh'), T('f1', '\n')], 'g.svh': [Def('G', 'g1'), T('g0', '\n')], 'p1/g.svh': F('pg')},
                         exists={'f.svh': True}))
    progs.append(IncProg('inc/nested-undef', [Def('M', 'm1'), Inc('f.svh'), Cond(False, [('M', [T('ym', '\n')])], [T('nm', '\n')])], ['A'],
                         {'f.svh': [T('f0', '\n'), Inc('g.svh')], 'g.svh': [Undef('M')]}, exists={'f.svh': True, 'g.svh': True}))
    progs.append(IncProg('inc/twice', [Inc('f.svh'), T('m', '\n'), Inc('f.svh'), T('z', '\n')], ['A'],
                         {'f.svh': [Cond(True, [('G', [Def('G'), T('body', '\n')])])]}, exists={'f.svh': True}))
    # file named through a macro
    progs.append(IncProg('inc/macro-named', [Def('INC', '"f.svh"'), Inc('f.svh', 'INC'), T('z', '\n')], ['A'],
                         {'f.svh': F('fc'), 'p1/f.svh': F('f1')}))
    # the included file does not end in white space: the line end after the directive is what separates its last token from the
    # next token of the including text -- literally named and macro-named includes alike
    progs.append(IncProg('inc/no-final-newline', [T('a', '\n'), Inc('f.svh'), T('z', '\n')], ['A'], {'f.svh': [T('f0', '\n'), T('fc', '')]}, exists={'f.svh': True}))
    progs.append(IncProg('inc/no-final-newline-angle', [T('a', '\n'), Inc('f.svh', '<'), T('z', '\n')], ['A'], {'f.svh': [T('fc', '')]}, exists={'f.svh': True}))
    progs.append(IncProg('inc/macro-named-no-final-newline', [Def('INC', '"f.svh"'), Inc('f.svh', 'INC'), T('z', '\n')], ['A'],
                         {'f.svh': [T('f0', '\n'), T('fc', '')]}, exists={'f.svh': True}))
    progs.append(IncProg('inc/macro-named-trailing-blanks', [Def('INC', '"f.svh"   '), Inc('f.svh', 'INC'), T('z', '\n')], ['A'],
                         {'f.svh': F('fc'), 'p1/f.svh': F('f1')}))
    progs.append(IncProg('inc/macro-named-line-comment', [Def('INC', '"f.svh" // the header'), Inc('f.svh', 'INC'), T('z', '\n')], ['A'],
                         {'f.svh': F('fc'), 'p1/f.svh': F('f1')}))
    progs.append(IncProg('inc/macro-named-missing-trailing-blanks', [Def('INC', '"nofile.svh"  '), Inc('nofile.svh', 'INC'), T('z', '\n')], ['A'], {'f.svh': F('fc')}))
    # the path handed to preprocess_str has no parent directory ("" is the idiom of the string entry points)
    for lab, items, files in (('missing', [T('a', '\n'), Inc('nofile.svh'), T('z', '\n')], {}),
                              ('found-in-path', [T('a', '\n'), Inc('f.svh'), T('z', '\n')], {'p1/f.svh': F('f1')}),
                              ('macro-named', [Def('INC', '"f.svh"'), Inc('f.svh', 'INC'), T('z', '\n')], {'p1/f.svh': F('f1')})):
        pgm = IncProg('inc/empty-top-path/' + lab, items, ['A'], files, include_paths=('p1',))
        pgm.top_path = ''
        progs.append(pgm)
    progs.append(IncProg('inc/sv-cov-flow', [Def('SV_COV_START', 's5'), Inc('f.svh'), Use('SV_COV_START', None, '\n'), Use('SV_COV_HIER', None, '\n')], ['A'],
                         {'f.svh': [Use('SV_COV_START', None, '\n'), Def('SV_COV_HIER', 'h99')]}, exists={'f.svh': True}))
    # pass-through directives in front of an include of a file without final newline: the line end after the `include survives
    for i, kd in enumerate(['`celldefine', '`endcelldefine', '`unconnected_drive pull0', '`nounconnected_drive', '`default_nettype none', '`resetall',
                            '`timescale 1ns/1ps', '`line 3 "x.v" 0', '`pragma foo', '`begin_keywords "1800-2005"', '`end_keywords']):
        progs.append(IncProg('inc/after-kept/%d' % i, [Kept(kd), T('a', '\n'), Inc('f.svh'), T('z', '\n')], ['A'], {'f.svh': [T('f0', '\n'), T('fc', '')]}, exists={'f.svh': True}))
    progs.append(IncProg('inc/macro-named-undefined', [Inc('f.svh', 'NOPE'), T('z', '\n')], ['A'], {'f.svh': F('fc')}))
    # same-line rule
    progs.append(IncProg('inc/line/tok-before', [T('a', ' '), Inc('f.svh'), T('z', '\n')], ['A'], {'f.svh': F('fc')}, exists={'f.svh': True}))
    # the text run in front of the `include starts on an earlier line (right after a `define line, after an `undef, after blank lines)
    progs.append(IncProg('inc/line/tok-before-after-define', [Def('M', 'm1'), T('a', ' '), Inc('f.svh'), T('z', '\n')], ['A'], {'f.svh': F('fc')}, exists={'f.svh': True}))
    progs.append(IncProg('inc/line/tok-before-after-undef', [Undef('A'), T('a', ' '), T('b', ' '), Inc('f.svh'), T('z', '\n')], ['A'], {'f.svh': F('fc')}, exists={'f.svh': True}))
    progs.append(IncProg('inc/line/tok-before-after-blank-lines', [Com('// head', '\n\n\n'), T('a', ' '), Inc('f.svh'), T('z', '\n')], ['A'], {'f.svh': F('fc')}, exists={'f.svh': True}))
    progs.append(IncProg('inc/line/nested-tok-before-after-define', [Inc('g.svh'), T('z', '\n')], ['A'],
                         {'g.svh': [Def('G', 'g1'), T('a', ' '), Inc('f.svh'), T('y', '\n')], 'f.svh': F('fc')}, exists={'f.svh': True, 'g.svh': True}))
    progs.append(IncProg('inc/line/tok-after', [Inc('f.svh', '"', ' '), T('z', '\n')], ['A'], {'f.svh': F('fc')}, exists={'f.svh': True}))
    progs.append(IncProg('inc/line/com-after', [Inc('f.svh', '"', ' '), Com('// k'), T('z', '\n')], ['A'], {'f.svh': F('fc')}, exists={'f.svh': True}))
    progs.append(IncProg('inc/line/com-before', [Com('/* k */', ' '), Inc('f.svh'), T('z', '\n')], ['A'], {'f.svh': F('fc')}, exists={'f.svh': True}))
    progs.append(IncProg('inc/line/use-before', [Def('M', 'm1'), Use('M', None, ' '), Inc('f.svh'), T('z', '\n')], ['A'], {'f.svh': F('fc')}, exists={'f.svh': True}))
    progs.append(IncProg('inc/line/two-includes', [Inc('f.svh', '"', ' '), Inc('f.svh'), T('z', '\n')], ['A'], {'f.svh': F('fc')}, exists={'f.svh': True}))
    progs.append(IncProg('inc/line/multiline-text-before', [T('a', '\n'), T('b', ' '), Inc('f.svh'), T('z', '\n')], ['A'], {'f.svh': F('fc')}, exists={'f.svh': True}))
    progs.append(IncProg('inc/line/text-prev-line', [T('a', '\n'), Inc('f.svh'), T('z', '\n')], ['A'], {'f.svh': F('fc')}, exists={'f.svh': True}))
    # anything else than white space / a comment after the directive on its line
    progs.append(IncProg('inc/line/undef-after', [Inc('f.svh', '"', ' '), Undef('A'), T('z', '\n')], ['A'], {'f.svh': F('fc')}, exists={'f.svh': True}))
    progs.append(IncProg('inc/line/kept-after', [Inc('f.svh', '"', ' '), Kept('`resetall'), T('z', '\n')], ['A'], {'f.svh': F('fc')}, exists={'f.svh': True}))
    progs.append(IncProg('inc/line/use-after', [Def('M', 'm1'), Inc('f.svh', '<', ' '), Use('M', None, '\n'), T('z', '\n')], ['A'], {'f.svh': F('fc')}, exists={'f.svh': True}))
    progs.append(IncProg('inc/line/ifdef-after', [Inc('f.svh', '"', ' '), Cond(False, [('A', [T('a', '\n')])], None), T('z', '\n')], ['A'], {'f.svh': F('fc')}, exists={'f.svh': True}))
    progs.append(IncProg('inc/line/define-after', [Inc('f.svh', '"', ' '), Def('Q', 'q1'), T('z', '\n')], ['A'], {'f.svh': F('fc')}, exists={'f.svh': True}))
    progs.append(IncProg('inc/line/undef-before', [Undef('A'), Inc('f.svh'), T('z', '\n')], ['A'], {'f.svh': F('fc')}, exists={'f.svh': True}))
    # deeper graphs: depth 3, fan-out 2, comments in every file (strip_comments is symbolic in C10)
    progs.append(IncProg('inc/deep3', [Com('// top'), Inc('a.svh'), T('z', '\n')], ['A'],
                         {'a.svh': [Com('/* a */'), T('a0', '\n'), Inc('b.svh'), Inc('c.svh', '<'), T('a1', '\n')],
                          'b.svh': [Com('// b'), Def('FROM_B', 'fb'), Inc('d.svh'), T('b0', '\n')],
                          'c.svh': [Use('FROM_B', None, '\n'), T('c0', '\n')],
                          'd.svh': [Com('/* d */'), T('d0', '\n')]},
                         exists={'a.svh': True, 'b.svh': True, 'c.svh': True, 'd.svh': 'sym'}))
    # ignore_include symbolic
    progs.append(IncProg('inc/ignore', [T('a', '\n'), Inc('f.svh'), T('z', '\n')], ['A'], {'f.svh': F('fc')}, ignore='sym'))
    progs.append(IncProg('inc/ignore-nested', [T('a', '\n'), Cond(False, [('A', [Inc('f.svh')])], [Inc('g.svh', '<')]), T('z', '\n')], ['A'],
                         {'f.svh': F('fc'), 'g.svh': F('gc')}, ignore='sym'))
    # faults
    progs.append(IncProg('inc/invalid-utf8', [T('a', '\n'), Inc('f.svh'), T('z', '\n')], ['A'], {'f.svh': F('fc')}, exists={'f.svh': True}, invalid=['f.svh']))
    progs.append(IncProg('inc/invalid-utf8-nested', [Inc('f.svh')], ['A'], {'f.svh': [T('f0', '\n'), Inc('g.svh')], 'g.svh': F('gc')},
                         exists={'f.svh': True}, invalid=['g.svh']))
    progs.append(IncProg('inc/dead-branch', [Cond(False, [('A', [Inc('nofile.svh')])], [T('e', '\n')]), T('z', '\n')], ['A'], {}))
    # non-ASCII before an include (re-basing of the included origin map is in bytes)
    progs.append(IncProg('inc/non-ascii', [Com('// © 2024 été'), T('a', '\n'), Inc('f.svh'), T('z', '\n')], ['A'],
                         {'f.svh': [Com('/* ü */', ' '), T('fc', '\n')]}, exists={'f.svh': True}))
    return with_crlf(progs, ('inc/flow-in', 'inc/nested', 'inc/line/after-text', 'inc/macro-named'))


class DepthProg(IncProg):
    def __init__(self, label, items, files=None, rd=0, idp=0, names=('A',)):
        IncProg.__init__(self, label, items, list(names), files or {}, exists={p: True for p in (files or {})}, include_paths=())
        self.rd, self.idp = rd, idp


def depth_programs(tier, seed):
    progs = []
    S = 'sym'
    progs.append(DepthProg('depth/plain', [T('a', '\n')], idp=S))
    progs.append(DepthProg('depth/use1', [Def('M', 'x'), Use('M', None, '\n')], rd=S))
    progs.append(DepthProg('depth/use-caller', [Use('A', None, '\n')], rd=S))
    progs.append(DepthProg('depth/use-undefined', [Use('Q', None, '\n')], rd=S))
    progs.append(DepthProg('depth/chain2', [Def('N', 'x'), Def('M', '`N', body_items=[Use('N', None, '')]), Use('M', None, '\n')], rd=S))
    progs.append(DepthProg('depth/chain3', [Def('O', 'x'), Def('N', '`O', body_items=[Use('O', None, '')]),
                                            Def('M', '`N', body_items=[Use('N', None, '')]), Use('M', None, '\n')], rd=S))
    # a macro whose text uses a macro with a LONGER name starting with its own name (no recursion), and its own name inside a string
    progs.append(DepthProg('depth/chain-prefix-names', [Def('MM', 'x'), Def('M', '`MM', body_items=[Use('MM', None, '')]), Use('M', None, '\n')], rd=S))
    progs.append(DepthProg('depth/own-name-in-string', [Def('M', '"`M" x'), Use('M', None, '\n')], rd=S))
    progs.append(DepthProg('depth/inc1', [Inc('f.svh'), T('z', '\n')], {'f.svh': [T('f0', '\n')]}, idp=S))
    # sibling includes are on the same level: the nesting count does not grow along a file
    progs.append(DepthProg('depth/inc-siblings', [Inc('f.svh'), Inc('g.svh'), Inc('f.svh'), T('z', '\n')], {'f.svh': [T('f0', '\n')], 'g.svh': [T('g0', '\n')]}, idp=S))
    progs.append(DepthProg('depth/inc-sibling-then-macro', [Inc('f.svh'), Def('M', 'x'), Use('M', None, '\n')], {'f.svh': [T('f0', '\n')]}, idp=S, rd=S))
    progs.append(DepthProg('depth/inc1-both', [Inc('f.svh'), T('z', '\n')], {'f.svh': [T('f0', '\n')]}, idp=S, rd=S))
    progs.append(DepthProg('depth/inc-macro', [Inc('f.svh'), T('z', '\n')], {'f.svh': [Def('M', 'x'), Use('M', None, '\n')]}, idp=S))
    progs.append(DepthProg('depth/inc-macro-chain', [Inc('f.svh'), T('z', '\n')],
                           {'f.svh': [Def('N', 'x'), Def('M', '`N', body_items=[Use('N', None, '')]), Use('M', None, '\n')]}, idp=S))
    progs.append(DepthProg('depth/inc-chain2', [Inc('f.svh')], {'f.svh': [T('f0', '\n'), Inc('g.svh')], 'g.svh': [T('g0', '\n')]}, idp=S))
    progs.append(DepthProg('depth/inc-missing-deep', [Inc('f.svh')], {'f.svh': [Inc('nofile.svh')]}, idp=S))
    progs.append(DepthProg('depth/macro-named-inc', [Def('INC', '"f.svh"'), Inc('f.svh', 'INC')], {'f.svh': [T('f0', '\n')]}, rd=S, idp=S))
    progs.append(DepthProg('depth/inc-in-macro', [Def('INC', '`include "f.svh"', body_items=[Inc('f.svh')]), Use('INC', None, '\n')],
                           {'f.svh': [T('f0', '\n')]}, rd=S, idp=S))
    # the next usage arrives through an actual argument / a default value: the macro's own text holds no usage, the rescan
    # of its expansion is still one level deeper
    progs.append(DepthProg('depth/arg-pass', [Def('N', 'y'), Def('ID', 'x', [('x', None)]), Use('ID', ['`N'], '\n')], rd=S))
    progs.append(DepthProg('depth/arg-pass2', [Def('N', 'y'), Def('ID', '(x)', [('x', None)]), Use('ID', ['`ID(`N)'], '\n')], rd=S))
    progs.append(DepthProg('depth/default-pass', [Def('N', 'y'), Def('ID', 'x', [('x', '`N')]), Use('ID', [None], '\n')], rd=S))
    # cycles (concrete start depths)
    for p_ in progs:
        p_.strip = 'sym'
    progs.append(DepthProg('cycle/macro-through-argument', [Def('LOOP', 'x(x)', [('x', None)]), Use('LOOP', ['`LOOP'], '\n')]))
    progs.append(DepthProg('cycle/macro-through-default', [Def('A', 'x', [('x', '`A()')]), Use('A', [None], '\n')]))
    progs.append(DepthProg('cycle/macro-direct', [Def('M', '`M', body_items=[Use('M', None, '')]), Use('M', None, '\n')]))
    progs.append(DepthProg('cycle/macro-mutual', [Def('M', '`N', body_items=[Use('N', None, '')]), Def('N', '`M', body_items=[Use('M', None, '')]), Use('M', None, '\n')]))
    progs.append(DepthProg('cycle/macro-3', [Def('M', '`N', body_items=[Use('N', None, '')]), Def('N', '`O', body_items=[Use('O', None, '')]),
                                             Def('O', 'x `M', body_items=[T('x', ' '), Use('M', None, '')]), Use('M', None, '\n')]))
    progs.append(DepthProg('cycle/include-self', [Inc('f.svh')], {'f.svh': [T('f0', '\n'), Inc('f.svh')]}))
    progs.append(DepthProg('cycle/include-mutual', [Inc('f.svh')], {'f.svh': [Inc('g.svh')], 'g.svh': [Inc('f.svh')]}))
    progs.append(DepthProg('cycle/macro-include', [Inc('cyc.svh')],
                           {'cyc.svh': [Def('INC', '`include "cyc.svh"', body_items=[Inc('cyc.svh')]), Use('INC', None, '\n')]}))
    # legal deep chains (concrete): 64 nested includes / 64 nested expansions succeed, 65 fail
    for n in (64, 65):
        files = {}
        for i in range(1, n + 1):
            files['f%d.svh' % i] = [Inc('f%d.svh' % (i + 1))] if i < n else [T('deep', '\n')]
        progs.append(DepthProg('chain/include-%d' % n, [Inc('f1.svh'), T('z', '\n')], files))
        items = [Def('M%d' % n, 'deep')]
        for i in range(n - 1, 0, -1):
            items.append(Def('M%d' % i, '`M%d' % (i + 1), body_items=[Use('M%d' % (i + 1), None, '')]))
        items.append(Use('M1', None, '\n'))
        progs.append(DepthProg('chain/macro-%d' % n, items))
    # 64 / 65 usages nested through the actual argument of a macro whose text is just its formal
    for n in (64, 65):
        a = 'deep'
        for i in range(n - 1):
            a = '`ID(' + a + ')'
        progs.append(DepthProg('chain/macro-args-%d' % n, [Def('ID', 'x', [('x', None)]), Use('ID', [a], '\n')]))
    # 70 sibling includes in one file are legal (the limit bounds nesting, not the number of includes)
    progs.append(DepthProg('chain/flat-70-includes', [Inc('f.svh') for _ in range(70)] + [T('z', '\n')], {'f.svh': [T('f0', '\n')]}))
    return progs


def macro_programs(tier, seed):
    """IEEE 22.5.1 define/usage programs (C05)"""
    P = []
    def prog(label, items, names=('A',)):
        P.append(Prog('macro/' + label, items, list(names)))
    # binding: formals with / without defaults, omitted / empty actuals, error cases
    prog('args-basic', [Def('F', 'x + y', [('x', None), ('y', None)]), T('l', ' '), Use('F', ['1', '2'], ' '), T('r', '\n')])
    prog('args-defaults', [Def('F', 'x+y+z', [('x', None), ('y', '7'), ('z', '"s"')]), Use('F', ['1'], ' '), Use('F', ['1', '2'], ' '), Use('F', ['1', None, '3'], '\n')])
    prog('args-empty-actual', [Def('F', '[x|y]', [('x', None), ('y', None)]), Use('F', [None, '5'], ' '), Use('F', ['4', None], '\n')])
    prog('args-missing-required', [Def('F', 'x y', [('x', None), ('y', None)]), Use('F', ['1'], '\n')])
    prog('args-missing-second-of-three', [Def('F', 'x y z', [('x', '0'), ('y', None), ('z', '9')]), Use('F', ['1'], '\n')])
    prog('noargs-for-function-like', [Def('F', 'x', [('x', None)]), T('a', ' '), Use('F', None, ' '), T('b', '\n')])
    prog('noargs-for-function-like-default', [Def('F', 'x', [('x', '3')]), Use('F', None, '\n')])
    prog('undefined', [T('a', ' '), Use('NOPE', ['1'], '\n')])
    prog('nobody', [Def('E'), Def('G', None, [('x', None)]), T('a', ' '), Use('E', None, ' '), Use('G', ['1'], ' '), T('b', '\n')])
    prog('object-with-parens', [Def('O', 'o1'), Use('O', ['q'], ' '), T('b', '\n')])
    # actual arguments with nested brackets, strings, commas
    prog('actual-nested', [Def('F', 'x;y', [('x', None), ('y', None)]), Use('F', ['f(a,b)', 'g[c,d]'], ' '), Use('F', ['{p,q}', '"s,t)"'], ' '), Use('F', ['({r,s})', '(u,(v,w))'], '\n')])
    prog('actual-string-with-ticks', [Def('F', 'x', [('x', None)]), Use('F', ['"a`b // c"'], '\n')])
    # body features
    prog('paste', [Def('P', 'x``_suffix pre_``x x``y', [('x', None), ('y', None)]), Use('P', ['n', 'm'], '\n')])
    prog('stringify', [Def('S', '`"x is `\\`"y`\\`" ok`"', [('x', None), ('y', None)]), Use('S', ['left', 'right'], '\n')])
    prog('string-untouched', [Def('S', '"x stays" x', [('x', None)]), Use('S', ['val'], '\n')])
    prog('string-with-slashes', [Def('S', '$display("http://e.org/x", x)', [('x', None)]), Use('S', ['v'], '\n')])
    prog('continuation', [Def('C', 'a1 \\\n  x \\\n  a3', [('x', None)]), T('h', ' '), Use('C', ['mid'], ' '), T('t', '\n')])
    prog('body-line-comment', [Def('C', 'k1 x // trailing', [('x', None)]), Use('C', ['v'], ' '), T('t', '\n')])
    # object-like macro whose body ends in a one-line comment, used with a parenthesised list: the list is restored after the body,
    # not inside the comment
    prog('object-with-parens-line-comment', [Def('O', 'ob // shim'), T('i', ' '), Use('O', ['"v %d"', 'x'], ' '), T(';', '\n'), T('t', '\n')])
    prog('ident-boundaries', [Def('I', 'x xx x1 _x x_ (x)', [('x', None)]), Use('I', ['V'], '\n')])
    # nesting: in bodies and in arguments; current table at point of use
    prog('nested-in-body', [Def('IN', 'i(x)', [('x', None)]), Def('OUT', '`IN(y) + `IN(2)', [('y', None)]), Use('OUT', ['7'], '\n')])
    prog('nested-in-arg', [Def('IN', 'i(x)', [('x', None)]), Def('W', '<x>', [('x', None)]), Use('W', ['`IN(3)'], '\n')])
    prog('redefine-between', [Def('V', 'v1'), Def('U', '`V'), Use('U', None, ' '), Def('V', 'v2'), Use('U', None, '\n')])
    prog('caller-table', [Def('U', '`A x', [('x', None)]), Use('U', ['1'], '\n')])
    prog('around-preserved', [Def('M', 'mm'), T('a(', ''), Use('M', None, ''), T(')b', '  '), Use('M', None, '\n'), T('c', '\n')])
    return with_crlf(P, ('macro/continuation', 'macro/body-line-comment', 'macro/args-basic', 'macro/nested-in-body', 'macro/string-with-slashes', 'macro/args-defaults'))


def totality_programs(tier, seed):
    """inputs that stress the unwrap / slice / index sites of the preprocessor (C08)"""
    P = []
    # `include through a macro whose expansion is short, empty, blank, non-ASCII, unbalanced quotes
    for i, body in enumerate(['q', '', ' ', '"', '""', '"a', '\u00e9', '<>', '<', '"\u00e9"', '" "', 'a b']):
        P.append(IncProg('total/inc-macro/%d' % i, [Def('M', body if body else None), Inc('x', 'M'), T('z', '\n')], ['A'], {}, include_paths=('p1',)))
    # macro texts that are blank only / defaults followed by blanks / a macro defining a macro from an empty actual
    P.append(Prog('total/blank-macro-text', [Def('G', '  '), Use('G', None, '\n'), Def('H', ' '), Cond(False, [('G', [T('yg', '\n')])], None), T('z', '\n')], ['A']))
    P.append(Prog('total/default-with-blanks', [Def('ADD', 'a+b', [('a', '1 '), ('b', '2  ')]), Use('ADD', ['3'], '\n'), Use('ADD', [None, '4'], '\n')], ['A']))
    P.append(Prog('total/define-from-empty-actual', [Def('MK', '`define X v', [('v', None)]), Use('MK', [None], '\n'), T('z', '\n')], ['A']))
    # comments / strings / identifiers with multi-byte characters at the very end of the input, every piece kind last
    for i, tail in enumerate(['// caf\u00e9', '/* \u00fc */', '"\u00df"', '\\esc\u00e9 ', 'x // \u00e9\n', '`define M \u00e9', '`M', '`ifdef A\n\u00e9 x\n`endif', 'a /*\u00e9*/b']):
        P.append(Prog('total/tail/%d' % i, [T('module', ' '), T('m;', ' ')], ['A']))
        P[-1].raw_tail = tail
    return P
