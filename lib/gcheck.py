"""Helpers shared by the grammar-level checks (C01, C12, C14, C15): turning Engine G facts into
counterexample records with native witnesses."""
import json, time
import engine as E
import grun


def gather(args):
    g = grun.run_grammar(args.tier, only=[args.only] if args.only else None)
    return g


def base_case(fam, label, text, r):
    paths = r.get('paths', []) if r else []
    return {'family': fam, 'label': label, 'text': text, 'real_paths': len(paths), 'ref_paths': 0, 'pairs': len(paths),
            'queries': r.get('queries', 0) if r else 0, 'solver_s': r.get('solver_s', 0) if r else 0, 'steps': r.get('steps', 0) if r else 0,
            'models': r.get('models', {}) if r else {}, 'cex': [], 'obligations': [], 'case': {'production': label}, 'wall': r.get('wall', 0) if r else 0}


SCOPE_PROBES = {
    'text_macro_usage': ['`1\n', 'module a; endmodule\n`1\n'],
    'text_macro_definition': ['`define 1\n', '`define\n'],
    'keywords_directive': ['`begin_keywords "1800-2017 \n', '`begin_keywords "1364-2001x\n'],
    'compiler_directive_without_resetall': ['module a; endmodule\n`resetall\n// c\nmodule b; endmodule\n'],
    'compiler_directive': ['`resetall x\n', '`nosuchthing\n'],
}
GENERIC_PROBES = ['`1\n', '`define 1\n', '`begin_keywords "1800-2017 \n', 'module a; endmodule\n`resetall\n// c\nmodule b; endmodule\n', '`', '`define',
                  '`include\n', '`ifdef\n', '`timescale 1\n', '`line 1\n', '`pragma\n', '`default_nettype\n', '`undef\n', '`unconnected_drive\n']


def native_scope_leak(name):
    """is a leaked scope observable on the real parser?  after parsing a probe text the directive stack must be empty and
    the keyword-version stack not deeper than the number of `begin_keywords in the text"""
    nat = E.native()
    probes = SCOPE_PROBES.get(name, []) + GENERIC_PROBES
    for t in probes:
        for parser in ('sv', 'pp'):
            r = nat.request({'cmd': 'raw', 'parser': parser, 'text': t, 'debug': False}, cache=False)
            d = r.get('depths')
            if not d:
                continue
            allowed = t.count('`begin_keywords')
            if d[0] > 0 or d[1] > allowed:
                return {'probe': t, 'parser': parser, 'depths_after_parse': d, 'begin_keywords_in_text': allowed}
    return None
