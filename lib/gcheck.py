"""Helpers shared by the grammar-level checks (C01, C12, C14, C15): turning Engine G facts into
counterexample records with native witnesses."""
import json, time
import engine as E
import grun


def gather(args):
    g = grun.run_grammar(args.tier, only=[args.only] if args.only else None)
    # evidence: the production bodies that were executed from MIR (one function per production, plus the helpers they call)
    try:
        import gprod
        prog = E.prog()
        prods = gprod.productions(prog)
        for n, r in g['results'].items():
            if r.get('status') == 'ok' and n in prods:
                body = prods[n][1]
                prog.encoded.setdefault(body.name, len(r.get('paths', [])))
    except Exception:
        pass
    return g


def base_case(fam, label, text, r):
    paths = r.get('paths', []) if r else []
    return {'family': fam, 'label': label, 'text': text, 'real_paths': len(paths), 'ref_paths': 0, 'pairs': len(paths),
            'queries': r.get('queries', 0) if r else 0, 'solver_s': r.get('solver_s', 0) if r else 0, 'steps': r.get('steps', 0) if r else 0,
            'models': r.get('models', {}) if r else {}, 'cex': [], 'obligations': [], 'case': {'production': label}, 'wall': r.get('wall', 0) if r else 0}


SCOPE_PROBES = {
    'text_macro_usage': ['`1\n', 'module a; endmodule\n`1\n'],
    'text_macro_definition': ['`define 1\n', '`define\n'],
    'keywords_directive': ['`begin_keywords "1800-2017 \n', '`begin_keywords "1364-2001x\n'],
    'compiler_directive_without_resetall': ['module a; endmodule\n`resetall\n// c\nmodule b; endmodule\n'],
    'compiler_directive': ['`resetall x\n', '`nosuchthing\n'],
}
GENERIC_PROBES = ['`1\n', '`define 1\n', '`begin_keywords "1800-2017 \n', 'module a; endmodule\n`resetall\n// c\nmodule b; endmodule\n', '`', '`define',
                  '`include\n', '`ifdef\n', '`timescale 1\n', '`line 1\n', '`pragma\n', '`default_nettype\n', '`undef\n', '`unconnected_drive\n']


_DIRS = ['`resetall\n', '`timescale 1ns/1ps\n', '`default_nettype none\n', '`celldefine\n`endcelldefine\n', '`unconnected_drive pull0\n`nounconnected_drive\n',
         '`line 1 "f.v" 0\n', '`pragma foo\n', '`define M 1\n', '`undef M\n', '`undefineall\n', '`ifdef A\n`endif\n', '`include "x.svh"\n', '`M\n', '`__FILE__\n']
# texts the real parser accepts as a whole: afterwards the keyword-version stack holds exactly the `begin_keywords still open
EXACT_PROBES = (['`begin_keywords "1364-2001"\n' + d + 'module a; endmodule\n' for d in _DIRS] +
                ['`begin_keywords "1364-2001"\nmodule a; endmodule\n' + d + 'module b; endmodule\n' for d in _DIRS] +
                ['`begin_keywords "1364-2001"\n' + d + 'module a; endmodule\n`end_keywords\n' for d in _DIRS[:4]] +
                ['`begin_keywords "1800-2005"\n`begin_keywords "1364-2001"\nmodule a; endmodule\n`end_keywords\n' + d + 'module b; endmodule\n' for d in _DIRS[:4]])


def native_scope_leak(name):
    """is a leaked scope observable on the real parser?  after parsing a probe text the directive stack must be empty and
    the keyword-version stack not deeper than the number of `begin_keywords in the text"""
    nat = E.native()
    probes = SCOPE_PROBES.get(name, []) + GENERIC_PROBES
    for t in probes:
        for parser in ('sv', 'pp'):
            r = nat.request({'cmd': 'raw', 'parser': parser, 'text': t, 'debug': False}, cache=False)
            d = r.get('depths')
            if not d:
                continue
            allowed = t.count('`begin_keywords')
            if d[0] > 0 or d[1] > allowed:
                return {'probe': t, 'parser': parser, 'depths_after_parse': d, 'begin_keywords_in_text': allowed}
    for t in EXACT_PROBES:
        for parser in ('sv',):
            r = nat.request({'cmd': 'raw', 'parser': parser, 'text': t, 'debug': False}, cache=True)
            d = r.get('depths')
            if not d or not r.get('ok') or r.get('consumed') != len(t.encode('utf-8')):
                continue
            want = t.count('`begin_keywords') - t.count('`end_keywords')
            if d[0] != 0 or d[1] != want:
                return {'probe': t, 'parser': parser, 'depths_after_parse': d, 'open_begin_keywords_in_text': want}
    return None


_CORPUS = None


def corpus():
    """the repository's own inputs: raw strings of sv-parser-parser/src/tests.rs (wrapped in a module when the test targets
    module items) and the preprocessor test files"""
    global _CORPUS
    if _CORPUS is not None:
        return _CORPUS
    import re, glob, os, build
    out = []
    src = open(os.path.join(build.SNAP, 'sv-parser-parser', 'src', 'tests.rs'), encoding='utf-8').read()
    for m in re.finditer(r'test!\(\s*([^,]+?),\s*r(#+)"(.*?)"\2\s*,\s*(Ok|Err)', src, re.S):
        parser, _, text, exp = m.groups()
        if exp != 'Ok':
            continue
        parser = parser.strip()
        if parser == 'source_text':
            out.append(('sv', text))
        elif parser == 'library_text':
            out.append(('lib', text))
        elif 'module_item' in parser:
            out.append(('sv', 'module t;\n' + text + '\nendmodule\n'))
    for f in sorted(glob.glob(os.path.join(build.SNAP, 'sv-parser-pp', 'testcases', 'expected', '*.sv'))):
        try:
            out.append(('sv', open(f, encoding='utf-8').read()))
        except Exception:
            pass
    out += [('sv', 'class c;\n int x;\nendclass : c\n'), ('sv', 'timeprecision 1ps;\ntimeunit 1ns;\nmodule m; endmodule\n'),
            ('lib', 'library l1 a.v,\n b.v\n;\ninclude c.map;\n'), ('lib', 'library l a.v\n;\n')]
    _CORPUS = out
    return out


def native_tiling_witness(limit=1500):
    """first corpus text whose real tree violates the leaf tiling / line / get_str facts of C01 (or None)"""
    nat = E.native()
    n = 0
    for kind, text in corpus()[:limit]:
        r = nat.request({'cmd': 'parse', 'text': text, 'path': 't.sv', 'lib': kind == 'lib', 'want': ['leaves']}, cache=True)
        if not r.get('ok'):
            continue
        n += 1
        b = text.encode('utf-8')
        cur = 0
        for off, line, ln in r['leaves']:
            if off != cur or ln <= 0:
                return {'text': text[:400], 'problem': 'leaf at offset %d (len %d) does not follow previous leaf end %d' % (off, ln, cur)}
            if line != 1 + b[:off].count(b'\n'):
                return {'text': text[:400], 'problem': 'leaf at offset %d has line %d, expected %d' % (off, line, 1 + b[:off].count(b'\n'))}
            cur = off + ln
        if cur != len(b):
            return {'text': text[:400], 'problem': 'leaves end at %d, text has %d bytes' % (cur, len(b))}
    return None
