"""Engine G: modular verification conditions over the grammar, executed on the REAL MIR of every
production body (sv-parser-parser).  Sub-parsers are replaced by their contracts (assume/guarantee):

  a production called on a span at offset p either fails (no consumption) or returns a node whose
  leaves tile [p, q) for some q >= p (or has no leaves and q = p), leaving the scope stacks as its
  effect summary says;

nom primitives get their nom 7 `complete` contracts.  Obligations per production and path:
  V1 tiling: the node built tiles [p_in, p_out); every Locate has len > 0 and line = L(offset);
  V2 scope pairing: directive / keyword-version stacks are as on entry (designated functions aside);
  panic obligations (concat(..).unwrap(), ret.unwrap(), arithmetic)."""
import re, time
import z3
import engine as E
from engine import Ref, Struct, Enum, Tup, VecV, Opaque, BoxV, StringV, AbsStr, Closure, FnItem, Char, UNIT
from interp import Explorer, Inconclusive, RustPanic, PathInfeasible, norm_type, strip_generics
from models import Models, some, none, ok, err, deref, sv, TABLE
from mir import split_top, match_close, find_top
from values import is_sym as _is_sym

MAX_ABSTRACT_CALLS = 14
MAX_PRIMITIVE_EVENTS = 60
LINEFN = z3.Function('L', z3.IntSort(), z3.IntSort())
TOTAL = z3.Int('LEN')


class AbsFrag(AbsStr):
    """&str fragment of a span: abstract content, known offset and length"""
    __slots__ = ('off',)

    def __init__(self, off, n):
        AbsStr.__init__(self, n)
        self.off = off


def span(off, line=None, length=None):
    return Opaque('LocatedSpan', {'off': off, 'line': line if line is not None else LINEFN(off), 'len': length})


def anode(ty, a, b):
    return Opaque('ANode', {'ty': ty, 'a': a, 'b': b})


class P:
    """abstract nom parser object"""

    def __init__(self, kind, *args, **kw):
        self.kind = kind
        self.args = args
        self.kw = kw

    def __repr__(self):
        return 'P(%s)' % self.kind


def parser(kind, *args, **kw):
    return Opaque('Parser', P(kind, *args, **kw))


class Consumed(Exception):
    """nullability mode: the path has provably consumed input; no need to follow it further"""


def nullability_cut(it, sp):
    if it.env.get('nullability_mode') or it.env.get('garbage_mode'):
        p0 = it.env.get('p_in')
        if p0 is not None and not it.feasible(sp.data['off'] == p0):
            raise Consumed()


# garbage-first mode (C14): the byte at the entry position p_in is one that starts no SystemVerilog token -- anything but
# printable ASCII and the white-space characters.  Primitives that match constant printable text / character sets fail
# there; byte-agnostic primitives (is_not, take, none_of, anychar, predicates) may consume it.
NONGARBAGE = set(chr(c) for c in range(0x20, 0x7f)) | set('\t\n\r\x0c')


GARBAGE_SAMPLES = ['\x00', '\x01', '\x08', '\x0b', '\x0e', '\x1f', '\x7f', '\x80', '\x85', '\xa0', '\xe9', '\u03a9', '\u0663', '\u2167', '\u2028', '\u3000',
                   '\ufeff', '\U0001d7d8']


def at_garbage(it, p):
    if not it.env.get('garbage_mode'):
        return False
    p0 = it.env.get('p_in')
    return p is p0 or not it.feasible(p != p0)


def garbage_consumed_check(it, q):
    """garbage mode: the path provably moved past the garbage byte"""
    if it.env.get('garbage_mode'):
        p0 = it.env.get('p_in')
        if not it.feasible(q == p0):
            raise Consumed()


class GState:
    def __init__(self):
        self.n = 0
        self.calls = 0
        self.log = []

    def fresh(self, base, sort='Int'):
        self.n += 1
        return z3.Int('%s_%d' % (base, self.n)) if sort == 'Int' else z3.Bool('%s_%d' % (base, self.n))


def gs(it):
    return it.env['g']


def nom_error(it, sp):
    return err(Enum('Err', 'Error', 1, [Opaque('GreedyError', {'pos': sp.data['off']})]))


def nom_failure(it, sp):
    return err(Enum('Err', 'Failure', 2, [Opaque('GreedyError', {'pos': sp.data['off']})]))


def nom_incomplete(it, sp):
    return err(Enum('Err', 'Incomplete', 0, [Opaque('Needed', None)]))


def is_failure(r):
    # nom's opt / alt / many0 / many_till recover Err::Error only: Failure (cut) and Incomplete (a streaming primitive) propagate
    return r.variant == 'Err' and type(r.fields[0]) is Enum and r.fields[0].variant in ('Failure', 'Incomplete')


def result_type(dest_ty):
    """'Result<(LocatedSpan<..>, T), ...>' -> T (normalised)"""
    if not dest_ty:
        return None
    t = dest_ty.strip()
    k = t.find('<')
    if k < 0:
        return None
    inner = t[k + 1:match_close(t, k)]
    parts = split_top(inner)
    if not parts or not parts[0].startswith('('):
        return None
    tup = split_top(parts[0][1:match_close(parts[0], 0)])
    if len(tup) != 2:
        return None
    return tup[1].strip()


# ------------------------------------------------------------------------------------------------
# application of parsers

def apply(it, pv, sp, dest_ty=None):
    """run parser value pv on span sp -> IResult value"""
    t = type(pv)
    if t is Ref:
        return apply(it, pv.get(), sp, dest_ty)
    if t is Closure:
        return it.call_value(pv, [sp])
    if t is FnItem:
        return call_production(it, pv.path, sp, dest_ty)
    if t is Opaque and pv.kind == 'Parser':
        return apply_prim(it, pv.data, sp, dest_ty)
    raise Inconclusive('apply of %r' % (pv,))


def prod_name(path):
    segs = [x.strip() for x in strip_generics(path).split('::') if x.strip()]
    return segs[-1] if segs else ''


def effect_free(it, f):
    name = prod_name(f.path)
    if name == it.env.get('self_name') or name in it.env.get('span_returning', ()):
        return False
    if name in it.env.get('hard_failing', ()):
        return False
    summ = it.env.get('summaries', {}).get(name)
    if summ is None:
        return name not in it.env.get('effectful', ())
    return summ.get('ok', (0, 0)) == (0, 0) and summ.get('err', (0, 0)) == (0, 0)


def call_production(it, path, sp, dest_ty):
    g = gs(it)
    name = prod_name(path)
    if name in NOM_DIRECT and ('nom::' in path or '::' not in path.split('<')[0]):
        return apply_prim(it, P(name), sp, dest_ty)
    hook = it.env.get('production_hook')
    if hook:
        r = hook(it, name, path, sp, dest_ty)
        if r is not None:
            return r
    r = inline_helper(it, name, sp)
    if r is not None:
        return r
    summ = it.env.get('summaries', {}).get(name)
    g.calls += 1
    if it.env.get('record_ctx'):
        # scope in force when this sub-parser is invoked: top of the keyword-version stack and depth of the directive stack
        tls = it.env.get('tls') or {}
        try:
            vs = tls['CURRENT_VERSION'].fields[0].fields
            top = vs[-1] if vs else None
            vtop = None if top is None else (top.variant if type(top) is Enum else (('pushed:' + str(top.data)) if type(top) is Opaque else '?'))
            ctx = (name, vtop, len(vs), len(tls['IN_DIRECTIVE'].fields[0].fields))
        except Exception:
            ctx = (name, '?', -1, -1)
        g.__dict__.setdefault('ctx', []).append(ctx)
    okb = g.fresh('ok_' + name, 'Bool')
    if g.calls > MAX_ABSTRACT_CALLS:
        it.assume(z3.Not(okb))
    p = sp.data['off']
    garb = at_garbage(it, p) and name not in it.env.get('garbage_consuming', ())
    if garb and it.env.get('nonnullable') is not None and name in it.env['nonnullable']:
        # induction hypothesis of the garbage-first fixpoint: this callee cannot consume the garbage byte, and it cannot
        # succeed without consuming: it fails
        it.assume(z3.Not(okb))
    if it.decide(okb, 'prod:' + name):
        q = g.fresh('q')
        it.assume(q >= p)
        if garb:
            it.assume(q == p)
        nonnull = it.env.get('nonnullable')
        if nonnull is not None and name in nonnull:
            it.assume(q > p)
        if summ:
            apply_effect(it, summ.get('ok', (0, 0)), name)
        ty = result_type(dest_ty) or name
        g.log.append(('ok', name))
        nullability_cut(it, span(q))
        if norm_type(ty) == 'LocatedSpan' or name in it.env.get('span_returning', ()):
            return ok(Tup([span(q), span(p, length=q - p)]))     # productions that return the matched span itself
        return ok(Tup([span(q), anode(norm_type(ty), p, q)]))
    if summ:
        apply_effect(it, summ.get('err', (0, 0)), name)
    if name in it.env.get('hard_failing', ()):
        hb = g.fresh('hard_' + name, 'Bool')
        if it.decide(hb, 'hard'):
            g.log.append(('failure', name))
            return nom_failure(it, sp)
    g.log.append(('err', name))
    return nom_error(it, sp)


_HELPER_INFO = {}


def helper_info(name):
    """(entry, result type) for un-annotated helper functions of the grammar crate whose result is not a syntax-tree node
    (a tuple / Option / Vec of nodes shared by several productions): they are executed from their own MIR inside the caller
    instead of being replaced by a contract, because callers take their result apart"""
    if name in _HELPER_INFO:
        return _HELPER_INFO[name]
    import gprod, engine
    info = None
    try:
        prods = gprod.productions(engine.prog()) if not getattr(gprod, '_PRODS_INFO', None) else gprod._PRODS_INFO
        gprod._PRODS_INFO = prods
        pi = prods.get(name)
        if pi is not None and pi[0] == 'plain':
            hdr = pi[2].header
            k = hdr.find(') -> Result<(LocatedSpan<&str, SpanInfo>, ')
            if k >= 0:
                rest = hdr[k + len(') -> Result<(LocatedSpan<&str, SpanInfo>, '):]
                # cut the closing paren of the (span, T) pair
                depth = 0
                out = []
                for ch in rest:
                    if ch in '(<[':
                        depth += 1
                    elif ch in ')>]':
                        if depth == 0:
                            break
                        depth -= 1
                    out.append(ch)
                ty = ''.join(out).strip()
                if ty.startswith('(') or ty.startswith('Option<') or ty.startswith('std::option::Option<') or ty.startswith('Vec<') or ty.startswith('std::vec::Vec<'):
                    info = (pi[1], ty)
    except Exception:
        info = None
    _HELPER_INFO[name] = info
    return info


def inline_helper(it, name, sp):
    if name == it.env.get('self_name'):
        return None
    info = helper_info(name)
    if info is None:
        return None
    depth = it.env.get('inline_depth', 0)
    if depth >= 4:
        return None
    it.env['inline_depth'] = depth + 1
    try:
        gs(it).log.append(('inline', name))
        return it.run_func(it.prog.func(info[0]), [sp])
    finally:
        it.env['inline_depth'] = depth


def apply_effect(it, eff, name):
    dd, dv = eff
    tls = it.env['tls']
    for key, d in (('IN_DIRECTIVE', dd), ('CURRENT_VERSION', dv)):
        vec = tls[key].fields[0]
        if d > 0:
            for _ in range(d):
                vec.fields.append(Opaque('Pushed', name))
        elif d < 0:
            for _ in range(-d):
                if vec.fields:
                    vec.fields.pop()


def prim_len(it, kind, p):
    g = gs(it)
    n = g.fresh('n')
    it.assume(n >= 1)
    return n


def apply_prim(it, P_, sp, dest_ty):
    g = gs(it)
    k = P_.kind
    p = sp.data['off']
    if k.endswith('@streaming'):
        # nom::*::streaming primitives answer Err::Incomplete when the input ends before they can decide
        base = P(k[:-10], *P_.args, **P_.kw)
        lx = it.env.get('lex')
        if lx is None:
            if it.decide(g.fresh('incomplete', 'Bool'), 'streaming-incomplete'):
                g.log.append(('incomplete', k))
                return nom_incomplete(it, sp)
            return apply_prim(it, base, sp, dest_ty)
        r = it.concretize(apply_prim(it, base, sp, dest_ty))
        if r.variant == 'Ok':
            if base.kind in ('take_while', 'take_while1', 'take_till', 'take_till1', 'is_a', 'is_not') and r.fields[0].fields[0].data['off'] >= lx.n:
                return nom_incomplete(it, sp)      # the run reached the end of the input: more could follow
            return r
        if base.kind in ('take_until', 'take', 'tag', 'tag_no_case', 'char', 'one_of', 'none_of', 'anychar', 'satisfy'):
            need = len(base.args[0]) if (base.kind in ('tag', 'tag_no_case', 'take_until') and isinstance(base.args[0], str)) else (base.args[0] if base.kind == 'take' and isinstance(base.args[0], int) else 1)
            if base.kind == 'take_until' or p + need > lx.n:
                return nom_incomplete(it, sp)
        return r
    if it.env.get('lex') is not None:
        import lexengine
        r = lexengine.lex_prim(it, P_, sp, dest_ty)
        if r is not NotImplemented:
            return r
    if k in ('terminal', 'tag', 'tag_no_case', 'is_a', 'one_of', 'char', 'alpha1', 'digit1', 'space1', 'multispace1', 'alphanumeric1', 'hex_digit1',
             'line_ending') and at_garbage(it, p):
        a0 = P_.args[1] if k == 'terminal' else (P_.args[0] if P_.args else None)
        if type(a0) is Char:
            a0 = a0.c if isinstance(a0.c, str) else chr(a0.c)
        fails = False
        if k in ('terminal', 'tag', 'tag_no_case'):
            fails = isinstance(a0, str) and len(a0) > 0 and a0[0] in NONGARBAGE
        elif k in ('is_a', 'one_of', 'char'):
            fails = isinstance(a0, str) and all(c in NONGARBAGE for c in a0)
        else:
            fails = True
        if fails:
            g.log.append(('garbage-refused', k))
            return nom_error(it, sp)
    if k in ('take_while', 'take_while1', 'take_till', 'take_till1', 'satisfy') and P_.args and at_garbage(it, p):
        # predicate closures / functions are run from their MIR on representative garbage characters (control characters, DEL,
        # non-ASCII letters, digits, spaces): if none is accepted the primitive cannot consume the byte
        pred = P_.args[0]
        pv = pred.get() if type(pred) is Ref else pred
        if type(pv) in (Closure, FnItem):
            acc = None
            try:
                acc = False
                for ch in GARBAGE_SAMPLES:
                    r = it.call_value(pv, [Char(ch)])
                    if _is_sym(r):
                        acc = None
                        break
                    if bool(r) != k.startswith('take_till'):
                        acc = True
                        break
            except (Inconclusive, RustPanic):
                acc = None
            if acc is False:
                g.log.append(('garbage-refused', k))
                if k in ('take_while', 'take_till'):
                    return ok(Tup([sp, span(p, length=0)]))
                return nom_error(it, sp)
    g.prims = getattr(g, 'prims', 0) + 1
    if g.prims > MAX_PRIMITIVE_EVENTS and k in ('terminal', 'tag', 'tag_no_case', 'is_a', 'is_not', 'one_of', 'none_of', 'char', 'anychar'):
        # bound on the number of token-level events along one path (loops over separators etc.)
        g.log.append(('event-bound', k))
        return nom_error(it, sp)
    if k == 'terminal':
        okb = g.fresh('t_' + P_.args[0], 'Bool')
        if it.decide(okb, 'terminal'):
            q = g.fresh('q')
            it.assume(q > p)
            nullability_cut(it, span(q))
            g.log.append(('terminal', P_.args[1]))
            return ok(Tup([span(q), anode('Keyword' if P_.args[0] == 'keyword' else 'Symbol', p, q)]))
        return nom_error(it, sp)
    if k in ('tag', 'tag_no_case'):
        t = P_.args[0]
        n = len(t.encode('utf-8')) if isinstance(t, str) else (t.n if isinstance(t, AbsStr) else g.fresh('taglen'))
        okb = g.fresh('m_' + k, 'Bool')
        if n == 0:
            return ok(Tup([sp, span(p, length=0)]))
        if it.decide(okb, 'prim'):
            nullability_cut(it, span(p + n))
            g.log.append(('prim', '%s %r' % (k, t if isinstance(t, str) else '?')))      # literal text matched directly by this body
            return ok(Tup([span(p + n), span(p, length=n)]))
        return nom_error(it, sp)
    if k in ('is_a', 'is_not', 'alpha1', 'digit1', 'space1', 'multispace1', 'alphanumeric1', 'hex_digit1', 'take_while1', 'take_till1',
             'line_ending', 'not_line_ending1', 'take1'):
        okb = g.fresh('m_' + k, 'Bool')
        if it.decide(okb, 'prim'):
            n = prim_len(it, k, p)
            return ok(Tup([span(p + n), span(p, length=n)]))
        return nom_error(it, sp)
    if k in ('take_while', 'take_till', 'space0', 'multispace0', 'digit0', 'alpha0', 'not_line_ending', 'rest', 'take_until0'):
        n = g.fresh('n0')
        it.assume(n >= 0)
        return ok(Tup([span(p + n), span(p, length=n)]))
    if k in ('take_until', 'take'):
        okb = g.fresh('m_' + k, 'Bool')
        if it.decide(okb, 'prim'):
            n = g.fresh('n0')
            it.assume(n >= 0)
            return ok(Tup([span(p + n), span(p, length=n)]))
        return nom_error(it, sp)
    if k in ('one_of', 'none_of', 'char', 'anychar', 'satisfy'):
        okb = g.fresh('m_' + k, 'Bool')
        if it.decide(okb, 'prim'):
            w = g.fresh('w')
            it.assume(z3.And(w >= 1, w <= 4))
            return ok(Tup([span(p + w), Opaque('AbsChar', {'off': p, 'w': w})]))
        return nom_error(it, sp)
    if k == 'eof':
        if it.decide(p == TOTAL, 'eof'):
            return ok(Tup([sp, span(p, length=0)]))
        return nom_error(it, sp)
    if k == 'opt':
        r = it.concretize(apply(it, P_.args[0], sp))
        if r.variant == 'Ok':
            s2, v = r.fields[0].fields
            return ok(Tup([s2, some(v)]))
        if is_failure(r):
            return r
        return ok(Tup([sp, none()]))
    if k == 'map':
        r = it.concretize(apply(it, P_.args[0], sp))
        if r.variant == 'Ok':
            s2, v = r.fields[0].fields
            return ok(Tup([s2, call_fn(it, P_.args[1], [v])]))
        return r
    if k in ('map_res', 'map_opt'):
        r = it.concretize(apply(it, P_.args[0], sp))
        if r.variant == 'Ok':
            s2, v = r.fields[0].fields
            x = it.concretize(call_fn(it, P_.args[1], [v]))
            if x.variant in ('Ok', 'Some'):
                return ok(Tup([s2, x.fields[0]]))
            return nom_error(it, sp)
        return r
    if k == 'verify':
        r = it.concretize(apply(it, P_.args[0], sp))
        if r.variant == 'Ok':
            s2, v = r.fields[0].fields
            if it.decide(call_fn(it, P_.args[1], [Ref([v], 0)]), 'verify'):
                return r
            return nom_error(it, sp)
        return r
    if k == 'alt':
        for sub in P_.args[0]:
            r = it.concretize(apply(it, sub, sp))
            if r.variant == 'Ok' or is_failure(r):
                return r
        return nom_error(it, sp)
    if k in ('pair', 'tuple', 'separated_pair', 'delimited', 'terminated', 'preceded'):
        subs = P_.args[0]
        cur = sp
        vals = []
        for sub in subs:
            r = it.concretize(apply(it, sub, cur))
            if r.variant != 'Ok':
                return r
            cur, v = r.fields[0].fields
            vals.append(v)
        if k in ('pair', 'tuple'):
            return ok(Tup([cur, Tup(vals)]))
        if k == 'terminated':
            return ok(Tup([cur, vals[0]]))
        if k == 'preceded':
            return ok(Tup([cur, vals[1]]))
        if k == 'separated_pair':
            return ok(Tup([cur, Tup([vals[0], vals[2]])]))
        return ok(Tup([cur, vals[1]]))
    if k in ('many0', 'many1') and type(P_.args[0]) is FnItem and effect_free(it, P_.args[0]):
        # repetition of an effect-free production: one abstract step (its results tile [p, q) by induction)
        name = prod_name(P_.args[0].path)
        q = g.fresh('q')
        if at_garbage(it, p) and name not in it.env.get('garbage_consuming', ()):
            # no iteration can consume the garbage byte: many0 yields the empty list, many1 fails
            if k == 'many1':
                return nom_error(it, sp)
            g.log.append(('many', name))
            return ok(Tup([sp, anode('Vec', p, p)]))
        if k == 'many1':
            okb = g.fresh('ok_many1_' + name, 'Bool')
            if not it.decide(okb, 'many1'):
                return nom_error(it, sp)
            it.assume(q > p)
        else:
            it.assume(q >= p)
        g.log.append(('many', name))
        return ok(Tup([span(q), anode('Vec', p, q)]))
    if k in ('many0', 'many1'):
        cur = sp
        vals = []
        for i in range(2):
            r = it.concretize(apply(it, P_.args[0], cur))
            if is_failure(r):
                return r
            if r.variant != 'Ok':
                break
            s2, v = r.fields[0].fields
            # nom: an iteration that does not consume ends the loop with an error (many0: Err(Many0))
            if not it.decide(s2.data['off'] > cur.data['off'], 'many_progress'):
                return nom_error(it, sp)
            cur = s2
            vals.append(v)
        else:
            # bounded unrolling: assume the next application fails (recorded as a bound)
            g.log.append(('unroll-bound', k))
            r = it.concretize(apply(it, P_.args[0], cur))
            if r.variant == 'Ok':
                raise PathInfeasible()
        if k == 'many1' and not vals:
            return nom_error(it, sp)
        return ok(Tup([cur, VecV(vals)]))
    if k == 'many_till':
        cur = sp
        vals = []
        for i in range(3):
            r = it.concretize(apply(it, P_.args[1], cur))
            if r.variant == 'Ok':
                s2, v = r.fields[0].fields
                return ok(Tup([s2, Tup([VecV(vals), v])]))
            if is_failure(r):
                return r
            if i == 2:
                g.log.append(('unroll-bound', k))
                raise PathInfeasible()
            r = it.concretize(apply(it, P_.args[0], cur))
            if r.variant != 'Ok':
                return r
            s2, v = r.fields[0].fields
            if not it.decide(s2.data['off'] > cur.data['off'], 'many_progress'):
                return nom_error(it, sp)
            cur = s2
            vals.append(v)
    if k == 'fold_many0':
        f, init, fold = P_.args
        acc = call_fn(it, init, [])
        cur = sp
        for i in range(2):
            r = it.concretize(apply(it, f, cur))
            if r.variant != 'Ok':
                return ok(Tup([cur, acc]))
            s2, v = r.fields[0].fields
            if not it.decide(s2.data['off'] > cur.data['off'], 'many_progress'):
                return nom_error(it, sp)
            cur = s2
            acc = call_fn(it, fold, [acc, v])
        g.log.append(('unroll-bound', k))
        r = it.concretize(apply(it, f, cur))
        if r.variant == 'Ok':
            raise PathInfeasible()
        return ok(Tup([cur, acc]))
    if k == 'peek':
        r = it.concretize(apply(it, P_.args[0], sp))
        if r.variant == 'Ok':
            return ok(Tup([sp, r.fields[0].fields[1]]))
        return r
    if k == 'not':
        r = it.concretize(apply(it, P_.args[0], sp))
        if r.variant == 'Ok':
            return nom_error(it, sp)
        if is_failure(r):
            return r
        return ok(Tup([sp, UNIT]))
    if k == 'recognize':
        r = it.concretize(apply(it, P_.args[0], sp))
        if r.variant == 'Ok':
            s2 = r.fields[0].fields[0]
            return ok(Tup([s2, span(p, length=s2.data['off'] - p)]))
        return r
    if k == 'all_consuming':
        r = it.concretize(apply(it, P_.args[0], sp))
        if r.variant == 'Ok':
            s2 = r.fields[0].fields[0]
            if it.decide(s2.data['off'] == TOTAL, 'all_consuming'):
                return r
            return nom_error(it, s2)
        return r
    if k == 'cut':
        r = it.concretize(apply(it, P_.args[0], sp))
        if r.variant == 'Err' and not is_failure(r):
            return nom_failure(it, sp)
        return r
    if k in ('context', 'complete'):
        return apply(it, P_.args[0], sp)
    if k == 'value':
        r = it.concretize(apply(it, P_.args[1], sp))
        if r.variant == 'Ok':
            return ok(Tup([r.fields[0].fields[0], P_.args[0]]))
        return r
    if k == 'success':
        return ok(Tup([sp, P_.args[0]]))
    raise Inconclusive('nom primitive %s' % k)


def call_fn(it, f, args):
    if type(f) is FnItem:
        return it.call_path(f.path, list(args), None, None)
    return it.call_value(f, list(args))


# ------------------------------------------------------------------------------------------------
# model overrides (installed on a Models instance)

NOM_CTORS = {
    'tag': 'tag', 'tag_no_case': 'tag_no_case', 'is_a': 'is_a', 'is_not': 'is_not', 'one_of': 'one_of', 'none_of': 'none_of',
    'char': 'char', 'take_while1': 'take_while1', 'take_while': 'take_while', 'take_till': 'take_till', 'take_till1': 'take_till1',
    'take_until': 'take_until', 'take': 'take', 'satisfy': 'satisfy',
}
NOM_DIRECT = {'alpha1', 'digit1', 'space1', 'multispace1', 'alphanumeric1', 'hex_digit1', 'eof', 'anychar', 'space0', 'multispace0', 'digit0',
              'alpha0', 'line_ending', 'not_line_ending', 'rest'}
NOM_COMB1 = {'opt', 'peek', 'not', 'recognize', 'all_consuming', 'many0', 'many1', 'cut', 'complete'}


def install(mdl, production_names=None):
    def ov(rx, fn):
        mdl.override(rx, fn)

    def terminal_ctor(it, ci, a, d):
        # utils::symbol(t) / keyword(t) / symbol_exact(t): terminal with trailing trivia, contract verified on its own
        # closure body (pseudo-productions 'utils::symbol' ...): Ok => Symbol/Keyword node tiling [p, q), q > p
        if it.env.get('self_name', '') in ('utils::symbol', 'utils::keyword', 'utils::symbol_exact'):
            return NotImplemented
        if ci.trait is None and ci.name in ('symbol', 'keyword', 'symbol_exact') and (ci.prefix == '' or ci.prefix.endswith('utils')) and len(a) == 1:
            return parser('terminal', ci.name, a[0] if type(a[0]) is str else None)
        return NotImplemented
    mdl.pre_hooks.append(terminal_ctor)

    if production_names is not None:
        def direct_production_call(it, ci, a, d):
            # a production called directly (`let (s, x) = other_production(s)?`) is replaced by its contract
            if ci.trait is None and ci.name in production_names and len(a) == 1 and type(a[0]) is Opaque and a[0].kind == 'LocatedSpan':
                return call_production(it, ci.path, a[0], d)
            return NotImplemented
        mdl.pre_hooks.append(direct_production_call)

    def ctor(it, ci, a, d):
        v = ctor0(it, ci, a, d)
        if it.frames:
            # the frame of the CALLER (dispatch runs inside the caller's activation)
            from interp import fifo_put
            fifo_put(it.frames[-1], 'nom:' + ci.name, v)
        return v

    def ctor0(it, ci, a, d):
        name = ci.name
        if name in NOM_CTORS:
            arg = a[0] if a else None
            if type(arg) is Ref and type(arg.get()) in (Closure, FnItem):
                arg = arg.get()
            kind = NOM_CTORS[name] + ('@streaming' if '::streaming::' in ci.path else '')
            if type(arg) is str or arg is None or isinstance(arg, AbsStr) or type(arg) in (Char, int, Closure, FnItem):
                return parser(kind, arg)       # predicates (closures / fn items) are kept: Engine L evaluates them
            return parser(kind, None)
        if name in NOM_COMB1:
            return parser(name, a[0])
        if name in ('map', 'map_res', 'map_opt', 'verify'):
            return parser(name, a[0], a[1])
        if name == 'alt':
            return parser('alt', list(a[0].fields))
        if name in ('pair', 'terminated', 'preceded'):
            return parser(name, [a[0], a[1]])
        if name == 'tuple':
            return parser('tuple', list(a[0].fields))
        if name in ('delimited', 'separated_pair'):
            return parser(name, [a[0], a[1], a[2]])
        if name == 'many_till':
            return parser('many_till', a[0], a[1])
        if name == 'fold_many0':
            return parser('fold_many0', a[0], a[1], a[2])
        if name == 'context':
            return parser('context', a[1])
        if name == 'value':
            return parser('value', a[0], a[1])
        if name == 'success':
            return parser('success', a[0])
        raise Inconclusive('nom constructor %s' % ci.path[:120])
    ov(r'^nom::(bytes::complete|bytes::streaming|character::complete|character::streaming|combinator|branch|multi|sequence|error)::(%s)(::<|$)' % '|'.join(
        sorted(set(NOM_CTORS) | NOM_COMB1 | {'map', 'map_res', 'map_opt', 'verify', 'alt', 'pair', 'terminated', 'preceded', 'tuple', 'delimited',
                                              'separated_pair', 'many_till', 'fold_many0', 'context', 'value', 'success'})), ctor)

    def direct(it, ci, a, d):
        return apply_prim(it, P(ci.name), a[0], d)
    ov(r'^nom::character::complete::(%s)(::<|$)' % '|'.join(sorted(NOM_DIRECT)), direct)
    ov(r'^nom::combinator::(eof|rest)(::<|$)', direct)

    def call_mut(it, ci, a, d):
        f = a[0]
        tup = a[1]
        return apply(it, f, tup.fields[0], d)
    ov(r' as Fn(Mut|Once)?<\(LocatedSpan<&str, SpanInfo>,\)>>::call(_mut|_once)?$', call_mut)

    # span accessors (nom_locate)
    def loc_off(it, ci, a, d):
        return deref(a[0]).data['off']
    ov(r'LocatedSpan::<.*>::location_offset$|LocatedSpan::location_offset$', loc_off)

    def loc_line(it, ci, a, d):
        return deref(a[0]).data['line']
    ov(r'LocatedSpan::<.*>::location_line$|LocatedSpan::location_line$', loc_line)

    def fragment(it, ci, a, d):
        s = deref(a[0]).data
        n = s['len']
        if n is None:
            n = TOTAL - s['off']
        return Ref([AbsFrag(s['off'], n)], 0)
    ov(r'LocatedSpan::<.*>::fragment$|LocatedSpan::fragment$', fragment)

    def new_raw(it, ci, a, d):
        frag = deref(a[2])
        return span(a[0], a[1], frag.n)
    ov(r'LocatedSpan::<.*>::new_from_raw_offset$', new_raw)

    def str_concat(it, ci, a, d):
        x, y = deref(a[0]), deref(a[1])
        if it.decide(x.off + x.n == y.off, 'adjacent'):
            return ok(AbsFrag(x.off, x.n + y.n))
        return err(Opaque('ConcatError', None))
    ov(r'^str_concat::concat$|^concat::<str>$|^concat$', str_concat)

    def is_keyword(it, ci, a, d):
        if it.env.get('is_keyword_value') is not None:
            return it.env['is_keyword_value']
        b = gs(it).fresh('is_kw', 'Bool')
        it.env.setdefault('kw_bools', []).append(b)
        return b
    ov(r'^utils::is_keyword$|^is_keyword$', is_keyword)

    def abs_str_eq(it, ci, a, d):
        return gs(it).fresh('streq', 'Bool')
    ov(r'<&str as PartialEq>::(eq|ne)$|<str as PartialEq>::(eq|ne)$', lambda it, ci, a, d: abs_str_eq(it, ci, a, d) if (type(deref(a[0])) is AbsFrag or type(deref(a[1])) is AbsFrag) else (sv(a[0]) == sv(a[1])) ^ (ci.name == 'ne'))

    def abs_trim(it, ci, a, d):
        if not a:
            return NotImplemented
        v = deref(a[0])
        if not isinstance(v, AbsStr):
            return NotImplemented
        if ci.trait is None and ci.name in ('trim', 'trim_end', 'trim_start', 'trim_matches', 'trim_end_matches', 'trim_start_matches') and '<impl str>' in ci.path:
            n2 = gs(it).fresh('trimmed')
            it.assume(z3.And(n2 >= 0, n2 <= v.n))
            off = getattr(v, 'off', None)
            if off is not None and ci.name in ('trim', 'trim_start', 'trim_matches', 'trim_start_matches'):
                o2 = gs(it).fresh('trimoff')
                it.assume(z3.And(o2 >= off, o2 + n2 <= off + v.n))
                off = o2
            return AbsFrag(off, n2) if off is not None else AbsStr(n2)
        return NotImplemented
    mdl.pre_hooks.append(abs_trim)

    # look-ahead at the bytes of the remaining input (s.fragment().as_bytes().first(), chars().next(), starts_with(..)):
    # lexical mode reads the symbolic byte of the text; abstract mode yields an unconstrained byte (memoised per position)
    def peek_byte(it, frag, k):
        off = frag.off
        lx = it.env.get('lex')
        if lx is not None:
            if E.is_sym(off):
                raise Inconclusive('look-ahead at a symbolic offset in lexical mode')
            limit = off + frag.n if not E.is_sym(frag.n) else lx.n
            if off + k >= min(lx.n, limit):
                return None
            return lx.b[off + k]
        g = gs(it)
        if not it.decide(frag.n > k, 'peek-has-byte'):
            return None
        memo = g.__dict__.setdefault('peeked', {})
        key = (str(off), k)
        if key not in memo:
            b = g.fresh('byte')
            it.assume(z3.And(b >= 0, b <= 255))
            memo[key] = b
        return memo[key]

    def abs_peek(it, ci, a, d):
        if not a:
            return NotImplemented
        v = deref(a[0])
        nm = ci.name
        if type(v) is AbsFrag and v.off is not None:
            if nm in ('as_bytes', 'bytes') and '<impl str>' in ci.path:
                return Ref([Opaque('AbsBytes', {'frag': v, 'pos': 0})], 0) if nm == 'as_bytes' else Opaque('AbsBytes', {'frag': v, 'pos': 0})
            if nm == 'chars' and '<impl str>' in ci.path:
                return Opaque('AbsBytes', {'frag': v, 'pos': 0, 'chars': True})
            if nm == 'starts_with' and '<impl str>' in ci.path:
                pat = deref(a[1])
                if type(pat) is Char:
                    pat = pat.c
                if isinstance(pat, str) and pat.isascii():
                    conds = []
                    for i, ch in enumerate(pat):
                        b = peek_byte(it, v, i)
                        if b is None:
                            return False
                        conds.append(b == ord(ch))
                    return it.decide(z3.And(conds) if conds else True, 'starts_with')
                if type(pat) in (Closure, FnItem):
                    b = peek_byte(it, v, 0)
                    if b is None:
                        return False
                    lx = it.env.get('lex')
                    cands = lx.alphabet if lx is not None else [chr(c) for c in range(128)]
                    acc = [c for c in cands if it.call_value(pat, [Char(c)]) is True]
                    if lx is None:
                        it.assume(b < 128)     # abstract mode: ASCII look-ahead only (stated bound)
                    return it.decide(z3.Or([b == ord(c) for c in acc]) if acc else False, 'starts_with_pred')
                return NotImplemented
        if type(v) is Opaque and v.kind == 'AbsBytes':
            st = v.data
            if nm in ('first', 'next', 'peek') or (nm == 'get' and len(a) > 1 and isinstance(a[1], int)) or (nm == 'nth' and len(a) > 1 and isinstance(a[1], int)):
                k = st['pos'] + (a[1] if nm in ('get', 'nth') else 0)
                b = peek_byte(it, st['frag'], k)
                if nm in ('next', 'nth'):
                    st['pos'] = k + 1
                if b is None:
                    return none()
                if st.get('chars') and it.env.get('lex') is None:
                    it.assume(b < 128)         # abstract mode: a char look-ahead is decided for ASCII only (stated bound)
                return some(Ref([b], 0)) if nm in ('first', 'get', 'peek') else some(b)
            if nm == 'count' and not st['pos']:
                n = st['frag'].n
                if not st.get('chars') or it.env.get('lex') is not None:
                    return n      # lexical mode counts in symbols of the alphabet: characters and bytes coincide
                # number of characters of a string of n bytes: between n/4 and n (equal for ASCII text only)
                c = gs(it).fresh('charcount')
                it.assume(z3.And(c >= 0, c <= n, 4 * c >= n))
                return c
            if nm == 'is_empty':
                return peek_byte(it, st['frag'], st['pos']) is None
            if nm == 'len' and not st['pos']:
                return st['frag'].n
            if nm in ('peekable', 'into_iter', 'iter', 'copied', 'cloned', 'by_ref'):
                return a[0]
        return NotImplemented
    mdl.pre_hooks.append(abs_peek)

    def make_error(it, ci, a, d):
        return Opaque('GreedyError', {'pos': a[0].data['off'] if type(a[0]) is Opaque else None})
    ov(r'^nom::error::make_error', make_error)

    # thread-locals
    def local_with(it, ci, a, d):
        key = deref(a[0])
        kname = key.data if type(key) is Opaque else str(getattr(key, 'path', key)).split('::')[-1]
        if kname == 'RECURSIVE_STORAGE' or 'RECURSIVE_STORAGE' in str(getattr(key, 'path', '')):
            return 0      # index of this production in nom_recursive's table (its value is immaterial)
        cell = it.env['tls'].get(kname)
        if cell is None:
            raise Inconclusive('unknown thread-local %r' % (key.data,))
        it.env.setdefault('tls_touched', set()).add(kname)
        return it.call_value(a[1], [Ref([cell], 0)])
    ov(r'^LocalKey::<.*>::with::<', local_with)

    def local_with_borrow(it, ci, a, d):
        # LocalKey<RefCell<T>>::with_borrow(f) = with(|c| f(&c.borrow())), with_borrow_mut likewise
        key = deref(a[0])
        kname = key.data if type(key) is Opaque else str(getattr(key, 'path', key)).split('::')[-1]
        cell = it.env['tls'].get(kname)
        if cell is None:
            raise Inconclusive('unknown thread-local %r' % (kname,))
        it.env.setdefault('tls_touched', set()).add(kname)
        return it.call_value(a[1], [Ref(cell.fields, 0)])
    ov(r'^LocalKey::<.*>::with_borrow(_mut)?::<', local_with_borrow)

    def borrow(it, ci, a, d):
        c = deref(a[0])
        return Struct('CellRef', [Ref(c.fields, 0)])
    ov(r'^RefCell::<.*>::borrow(_mut)?$', borrow)

    # in_directive(): whether the production was entered inside a directive is not known to a modular analysis -- when the
    # directive stack holds nothing but the placeholder of the (unknown) caller context, both answers are explored
    def in_directive_model(it, ci, a, d):
        tls = it.env.get('tls') or {}
        vec = tls['IN_DIRECTIVE'].fields[0].fields
        base = it.env.get('dir_depth_at_entry')
        if base is None or it.env.get('lex') is not None:
            return len(vec) > 0
        if len(vec) > base:
            return True           # pushed by this production itself
        if len(vec) < base or base == 0:
            return len(vec) > 0
        g = gs(it)
        b = g.__dict__.get('entry_in_directive')
        if b is None:
            b = g.fresh('entered_in_directive', 'Bool')
            g.__dict__['entry_in_directive'] = b
        return it.decide(b, 'in_directive')
    ov(r'^(utils::)?in_directive$', in_directive_model)

    def cellref_deref(it, ci, a, d):
        return deref(a[0]).fields[0]
    ov(r'^<(std::cell::|core::cell::)?Ref(Mut)?<.*> as Deref(Mut)?>::deref(_mut)?$', cellref_deref)

    # #[recursive_parser] prologue: re-entry at the same position fails, otherwise the body runs
    def rec_check(it, ci, a, d):
        return gs(it).fresh('reentered', 'Bool')
    ov(r'^RecursiveInfo::check_flag$', rec_check)
    ov(r'^RecursiveInfo::(set_ptr|clear_flags|set_flag)$', lambda it, ci, a, d: UNIT)
    ov(r'^RecursiveInfo::get_ptr$', lambda it, ci, a, d: Opaque('Ptr', 'stored'))
    ov(r'as AsBytes>::as_bytes$', lambda it, ci, a, d: Opaque('Bytes', a[0]))
    ov(r'<impl \[u8\]>::as_ptr$|slice::.*::as_ptr$', lambda it, ci, a, d: Opaque('Ptr', 'current'))

    ov(r'HasRecursiveInfo>::get_recursive_info$', lambda it, ci, a, d: Opaque('RecursiveInfo', {}))
    ov(r'HasRecursiveInfo>::set_recursive_info$', lambda it, ci, a, d: a[0])

    def packrat_clear(it, ci, a, d):
        deref(a[0]).data['entries'] = 0
        return UNIT
    ov(r'^PackratStorage::<.*>::clear$', packrat_clear)


_re_nomclo = re.compile(r'^ZeroSized: \{closure@nom::(?:\w+::)*(\w+)<')


def const_hook_tls(it, name):
    simple = name.split('::')[-1]
    if simple in it.env.get('tls', {}):
        return Opaque('LocalKey', simple)
    m = _re_nomclo.match(name)
    if m:
        # a nom parser whose captures are zero-sized, printed as a constant: the parser object of that kind
        # created last in this activation (FIFO), see Interp.const_path
        from interp import fifo_take
        fr = it.frames[-1] if it.frames else None
        v = fifo_take(fr, 'nom:' + m.group(1)) if fr is not None else None
        if v is not None:
            return NoCache(v)
        # no creation in this activation: rebuild the parser from its type when its only captures are function items
        # ({closure@nom::bytes::complete::take_while1<fn(char) -> bool {is_space}, ..>})
        kind = m.group(1)
        fns = re.findall(r'fn\([^)]*\)(?: -> [^{},]+?)? \{([^{}]+)\}', name)
        if kind in ('take_while', 'take_while1', 'take_till', 'take_till1', 'satisfy') and len(fns) == 1:
            return NoCache(parser(kind, FnItem(fns[0].strip())))
        raise Inconclusive('zero-sized nom parser constant without a creation site: %s' % name[:100])
    return None


class NoCache:
    def __init__(self, v):
        self.v = v


def fresh_tls(dir_depth=1, ver_depth=1, memo=1):
    return {'IN_DIRECTIVE': Struct('RefCell', [VecV([UNIT for _ in range(dir_depth)])]),
            'CURRENT_VERSION': Struct('RefCell', [VecV([Opaque('Version', 'pre%d' % i) for i in range(ver_depth)])]),
            'PACKRAT_STORAGE': Struct('RefCell', [Opaque('PackratStorage', {'entries': memo})])}


def tls_snapshot(tls):
    return (list(tls['IN_DIRECTIVE'].fields[0].fields), list(tls['CURRENT_VERSION'].fields[0].fields))


# ------------------------------------------------------------------------------------------------
# V1: tiling of a result value

def intervals(v, out):
    """leaf intervals of a value in field order: (a, b, kind, locate_or_None)"""
    t = type(v)
    if t is Struct:
        if v.ty == 'Locate':
            off, line, ln = v.fields
            out.append((off, off + ln, 'locate', v))
            return
        for f in v.fields:
            intervals(f, out)
    elif t in (Tup, E.Arr) or t is VecV:
        for f in v.fields:
            intervals(f, out)
    elif t is Enum:
        for f in v.fields:
            intervals(f, out)
    elif t is BoxV:
        intervals(v.cell[0], out)
    elif t is Opaque:
        if v.kind == 'ANode':
            out.append((v.data['a'], v.data['b'], 'node', None))
        elif v.kind == 'LocatedSpan' and v.data.get('len') is not None:
            out.append((v.data['off'], v.data['off'] + v.data['len'], 'span', None))     # a production that returns the matched span
    elif t is Ref:
        intervals(v.get(), out)


def tiling_violation(it, value, p_in, p_out):
    """z3 condition (or None) under which the leaves of `value` do NOT tile [p_in, p_out)"""
    ivs = []
    intervals(value, ivs)
    bad = []
    cur = p_in
    for a, b, kind, loc in ivs:
        nonempty = b > a
        if kind == 'locate':
            off, line, ln = loc.fields
            bad.append(z3.Not(ln > 0) if E.is_sym(ln) else z3.BoolVal(not (ln > 0)))
            lc = (line != LINEFN(off))
            bad.append(lc if E.is_sym(lc) else z3.BoolVal(bool(lc)))
        c = z3.And(nonempty, a != cur) if E.is_sym(nonempty) or E.is_sym(a != cur) else z3.BoolVal(bool(nonempty and a != cur))
        bad.append(c)
        cur = z3.If(nonempty, b, cur) if E.is_sym(nonempty) else (b if nonempty else cur)
    fin = (cur != p_out)
    bad.append(fin if E.is_sym(fin) else z3.BoolVal(bool(fin)))
    cond = z3.simplify(z3.Or([b for b in bad]))
    if z3.is_false(cond):
        return None
    return cond
