"""Runner shared by the property checks: argument handling, parallel map over cases, evidence,
verdict.  Exit codes: 0 held, 1 violation (VIOLATION line), 2 inconclusive."""
import os, sys, json, time, argparse, traceback, multiprocessing as mp
import engine as E
from interp import Inconclusive

_worker_fn = None


def _init_worker():
    from native import Native
    import build
    E._native = Native(build.SVREPLAY)


def _call(arg):
    try:
        r = _worker_fn(arg)
        if isinstance(r, dict) and E.prog() is not None:
            r['_encoded'] = dict(E.prog().encoded)
        return ('ok', r)
    except Inconclusive as e:
        return ('inconclusive', '%s' % e)
    except Exception as e:
        return ('error', '%s: %s\n%s' % (type(e).__name__, e, traceback.format_exc(limit=8)))


def pmap(fn, args, procs=None):
    """parallel map in forked workers (the loaded Program is shared copy-on-write)"""
    global _worker_fn
    _worker_fn = fn
    procs = procs or min(16, os.cpu_count() or 4)
    if len(args) <= 1 or procs == 1 or os.environ.get('VERIF_SERIAL'):
        _init_worker()
        return [_call(a) for a in args]
    ctx = mp.get_context('fork')
    with ctx.Pool(procs, initializer=_init_worker) as pool:
        res = pool.map(_call, args, chunksize=1)
    for st, r in res:
        if st == 'ok' and isinstance(r, dict) and '_encoded' in r and E.prog() is not None:
            E.prog().encoded.update(r.pop('_encoded'))
    return res


def parse_args(pid):
    ap = argparse.ArgumentParser()
    ap.add_argument('--tier', default=os.environ.get('VERIF_TIER', 'quick'))
    ap.add_argument('--seed', type=int, default=int(os.environ.get('VERIF_SEED', '0')))
    ap.add_argument('--replay', default=None)
    ap.add_argument('--only', default=None, help='debug: run only cases whose label contains this')
    a = ap.parse_args(sys.argv[2:] if len(sys.argv) > 1 and sys.argv[1] == pid else None)
    if a.tier not in ('quick', 'thorough'):
        a.tier = 'quick'
    return a
