"""Build steps shared by all checks: snapshot of /repo, MIR dumps (regenerated when the sources of a
crate or of its dependencies changed), svreplay (real code with hooks on)."""
import os, sys, subprocess, hashlib, json, time, fcntl

REPO = os.environ.get('VERIF_REPO', '/repo')
VERIF = os.path.dirname(os.path.dirname(os.path.abspath(__file__)))
BUILD = os.path.join(VERIF, 'build')
SNAP = os.path.join(BUILD, 'repo-snap')
MIRDIR = os.path.join(BUILD, 'mir')
MIR_TARGET = os.path.join(BUILD, 'mir-target')
SVREPLAY_TARGET = os.path.join(BUILD, 'svreplay-target')
SVREPLAY = os.path.join(SVREPLAY_TARGET, 'debug', 'svreplay')
GUARD = '--cfg sv_parser_verif'

CRATES = {
    # name of dump -> (crate dir, crates whose sources it depends on)
    'sv-parser-syntaxtree': ('sv-parser-syntaxtree', ['sv-parser-syntaxtree', 'sv-parser-macros']),
    'sv-parser-parser': ('sv-parser-parser', ['sv-parser-parser', 'sv-parser-syntaxtree', 'sv-parser-macros']),
    'pp': ('sv-parser-pp', ['sv-parser-pp', 'sv-parser-parser', 'sv-parser-syntaxtree', 'sv-parser-macros', 'sv-parser-error']),
    'sv-parser': ('sv-parser', ['sv-parser', 'sv-parser-pp', 'sv-parser-parser', 'sv-parser-syntaxtree', 'sv-parser-macros', 'sv-parser-error']),
}


def env():
    e = dict(os.environ)
    e['CARGO_NET_OFFLINE'] = 'true'
    e.pop('RUSTFLAGS', None)
    return e


def crate_hash(root, names):
    h = hashlib.sha256()
    for n in sorted(names):
        d = os.path.join(root, n)
        for dp, dn, fn in sorted(os.walk(d)):
            dn.sort()
            if '/target' in dp:
                continue
            for f in sorted(fn):
                if f.endswith(('.rs', '.toml')):
                    p = os.path.join(dp, f)
                    h.update(p[len(root):].encode())
                    h.update(open(p, 'rb').read())
    for f in ('Cargo.toml', 'Cargo.lock'):
        p = os.path.join(root, f)
        if os.path.exists(p):
            h.update(open(p, 'rb').read())
    return h.hexdigest()


class Lock:
    def __init__(self, name):
        os.makedirs(BUILD, exist_ok=True)
        self.path = os.path.join(BUILD, name + '.lock')

    def __enter__(self):
        self.fh = open(self.path, 'w')
        fcntl.flock(self.fh, fcntl.LOCK_EX)
        return self

    def __exit__(self, *a):
        fcntl.flock(self.fh, fcntl.LOCK_UN)
        self.fh.close()


def log(*a):
    print('[build]', *a, file=sys.stderr, flush=True)


def ensure_snapshot():
    os.makedirs(SNAP, exist_ok=True)
    subprocess.run(['rsync', '-a', '--delete', '--exclude', 'target', '--exclude', '.git', REPO + '/', SNAP + '/'], check=True)


def ensure_mir(which=('pp', 'sv-parser', 'sv-parser-syntaxtree', 'sv-parser-parser')):
    """returns {dump: {'path','hash','regenerated'}}"""
    out = {}
    with Lock('mir'):
        ensure_snapshot()
        os.makedirs(MIRDIR, exist_ok=True)
        statef = os.path.join(MIRDIR, 'state.json')
        try:
            state = json.load(open(statef))
        except Exception:
            state = {}
        for name in which:
            cdir, deps = CRATES[name]
            h = crate_hash(SNAP, deps) + ('+hooks' if name == 'sv-parser' else '')
            path = os.path.join(MIRDIR, name + '.mir')
            regen = not (state.get(name) == h and os.path.exists(path) and os.path.getsize(path) > 0)
            if regen:
                t = time.time()
                log('MIR dump', name, '...')
                lib = os.path.join(SNAP, cdir, 'src', 'lib.rs')
                os.utime(lib, None)
                e = env()
                e['CARGO_TARGET_DIR'] = MIR_TARGET
                with open(path + '.tmp', 'wb') as fh:
                    # the sv-parser crate is dumped with its hooks on (instantiations of the exported macros); the flag after
                    # `--` reaches the final crate only, its dependencies are compiled as usual
                    extra = ['--cfg', 'sv_parser_verif'] if name == 'sv-parser' else []
                    p = subprocess.run(['cargo', '+nightly', 'rustc', '--offline', '--lib', '--', '-Zunpretty=mir',
                                        '-C', 'debug-assertions=off', '-C', 'overflow-checks=on'] + extra,
                                       cwd=os.path.join(SNAP, cdir), stdout=fh, stderr=subprocess.PIPE, env=e)
                if p.returncode != 0 or os.path.getsize(path + '.tmp') == 0:
                    sys.stderr.write(p.stderr.decode()[-3000:])
                    raise RuntimeError('MIR dump failed for %s' % name)
                os.replace(path + '.tmp', path)
                for suf in ('.idx',):
                    if os.path.exists(path + suf):
                        os.remove(path + suf)
                state[name] = h
                json.dump(state, open(statef, 'w'))
                log('MIR dump', name, 'done in %.1fs' % (time.time() - t))
            out[name] = {'path': path, 'hash': h, 'regenerated': regen}
    return out


def ensure_svreplay():
    with Lock('svreplay'):
        e = env()
        e['RUSTFLAGS'] = GUARD
        e['CARGO_TARGET_DIR'] = SVREPLAY_TARGET
        t = time.time()
        lockf = os.path.join(VERIF, 'svreplay', 'Cargo.lock')
        p = subprocess.run(['cargo', 'build', '--offline'], cwd=os.path.join(VERIF, 'svreplay'),
                           stdout=subprocess.PIPE, stderr=subprocess.PIPE, env=e)
        if p.returncode != 0:
            sys.stderr.write(p.stderr.decode()[-4000:])
            raise RuntimeError('svreplay build failed')
        if time.time() - t > 5:
            log('svreplay rebuilt in %.1fs' % (time.time() - t))
    return SVREPLAY


if __name__ == '__main__':
    t = time.time()
    ensure_svreplay()
    r = ensure_mir()
    print(json.dumps({k: v['regenerated'] for k, v in r.items()}), 'in %.1fs' % (time.time() - t))
