"""Abstract preprocessor programs, their rendering to source text, and a reference evaluator
(IEEE 1800-2017 22.4-22.6 as restated by properties C04/C05/C10/C11/C18) that runs under the same
symbolic inputs as the real code (it forks through Interp.decide, so its cases are a partition of
the input space with z3 path conditions)."""
import z3

PREDEFINED = ('__LINE__', '__FILE__')


class T:      # plain token
    def __init__(self, tok, sep=' '):
        self.tok, self.sep = tok, sep


class Com:    # comment (// or /* */), own token class
    def __init__(self, text, sep='\n'):
        self.text, self.sep = text, sep


class Def:    # `define NAME[(params)] [body]
    def __init__(self, name, body=None, params=None, body_items=None):
        # body_items: abstract program equivalent to the body text (for bodies containing directives)
        self.name, self.body, self.params, self.body_items = name, body, params, body_items


class Undef:
    def __init__(self, name):
        self.name = name


class UndefAll:
    pass


class Use:    # `NAME[(args)]
    def __init__(self, name, args=None, sep=' ', paren_items=None):
        # paren_items: abstract program standing in parentheses right after the usage of an object-like macro
        # (`LOG(`ifdef A 1 `else 0 `endif)): the text is restored after the body and preprocessed with it
        self.name, self.args, self.sep, self.paren_items = name, args, sep, paren_items


class Cond:   # `ifdef/`ifndef chain
    def __init__(self, neg, branches, els=None, end_sep='\n', compact=False):
        # compact: the whole chain on one line, directives separated from their neighbours by single blanks only
        self.neg, self.branches, self.els, self.end_sep, self.compact = neg, branches, els, end_sep, compact


class Inc:    # `include "f" | <f> | `MACRO
    def __init__(self, fname, style='"', sep='\n'):
        self.fname, self.style, self.sep = fname, style, sep


class Kept:   # directive kept verbatim (timescale, celldefine, ...)
    def __init__(self, text):
        self.text = text


class Layout:  # first item of a program: line ends of the rendered text (CR LF instead of LF); no tokens
    def __init__(self, crlf=False):
        self.crlf = crlf


class Rendered:
    def __init__(self):
        self.parts = []
        self.pos = 0
        self.line = 1
        self.crlf = False

    def emit(self, s):
        if self.crlf:
            s = s.replace('\r\n', '\n').replace('\n', '\r\n')
        off = self.pos
        self.parts.append(s)
        self.pos += len(s.encode('utf-8'))
        self.line += s.count('\n')
        return off

    def text(self):
        return ''.join(self.parts)


def _mark_macrobody(items):
    for x in items:
        x.in_macro_body = True
        if isinstance(x, Cond):
            for _, b in x.branches:
                _mark_macrobody(b)
            if x.els:
                _mark_macrobody(x.els)


def render(items, r=None):
    """assign source offsets to every item (stored on the item: .off, .line, and for Def .body_off)"""
    top = r is None
    if top:
        r = Rendered()
    for it in items:
        if isinstance(it, Layout):
            r.crlf = it.crlf
            continue
        if isinstance(it, T):
            it.line = r.line
            it.off = r.emit(it.tok)
            r.emit(it.sep)
        elif isinstance(it, Com):
            it.line = r.line
            it.off = r.emit(it.text)
            r.emit(it.sep)
        elif isinstance(it, Def):
            it.line = r.line
            head = '`define ' + it.name
            if it.params is not None:
                head += '(' + ','.join(p if d is None else '%s=%s' % (p, d) for p, d in it.params) + ')'
            it.off = r.emit(head)
            it.head_end = r.pos
            if it.body is not None:
                r.emit(' ')
                if r.crlf:
                    it.body = it.body.replace('\r\n', '\n').replace('\n', '\r\n')
                it.body_off = r.emit(it.body)
            it.end = r.pos
            r.emit('\n')
            if it.body_items is not None:
                sub = Rendered()
                sub.crlf = r.crlf
                render(it.body_items, sub)
                _mark_macrobody(it.body_items)
        elif isinstance(it, Undef):
            it.line = r.line
            it.off = r.emit('`undef ' + it.name)
            r.emit('\n')
        elif isinstance(it, UndefAll):
            it.line = r.line
            it.off = r.emit('`undefineall')
            r.emit('\n')
        elif isinstance(it, Use):
            it.line = r.line
            s = '`' + it.name
            if it.args is not None:
                s += '(' + ','.join('' if a is None else a for a in it.args) + ')'
            it.off = r.emit(s)
            if getattr(it, 'paren_items', None) is not None:
                r.emit('(')
                render(it.paren_items, r)
                _mark_macrobody(it.paren_items)
                r.emit(')')
            r.emit(it.sep)
        elif isinstance(it, Kept):
            it.line = r.line
            it.off = r.emit(it.text)
            r.emit('\n')
        elif isinstance(it, Inc):
            it.line = r.line
            if it.style == '"':
                s = '`include "%s"' % it.fname
            elif it.style == '<':
                s = '`include <%s>' % it.fname
            else:
                s = '`include `%s' % it.style
            it.off = r.emit(s)
            r.emit(it.sep)
        elif isinstance(it, Cond):
            it.line = r.line
            for i, (name, body) in enumerate(it.branches):
                kw = ('`ifndef ' if it.neg else '`ifdef ') if i == 0 else '`elsif '
                nl = ' ' if getattr(it, 'compact', False) else '\n'
                r.emit(kw + name + nl)
                render(body, r)
            if it.els is not None:
                r.emit('`else' + (' ' if getattr(it, 'compact', False) else '\n'))
                render(it.els, r)
            it.end_line = r.line
            r.emit('`endif' + it.end_sep)
        else:
            raise TypeError(it)
    return r.text() if top else None


# ------------------------------------------------------------------------------------------------
# reference evaluation

class RefError(Exception):
    def __init__(self, variant, name=None):
        self.variant, self.name = variant, name


class Tok:
    """expected output token with provenance"""
    __slots__ = ('text', 'prov', 'glue')

    def __init__(self, text, prov):
        self.text = text
        self.glue = False  # emulation of finding F11 only: no white space between this token and the next
        self.prov = prov   # ('src', file, off) | ('macro', file|None, body_off|None) | ('synth',) | ('kept', file, off)

    def __repr__(self):
        return '%s@%s' % (self.text, self.prov)


class RefState:
    def __init__(self, it, table):
        self.it = it                # Interp (decide/choose)
        self.table = dict(table)    # name -> (present: bool|z3, value) ; value: None | dict(body, file, body_off, params) | Choice-like list
        self.out = []
        self.depth_inc = 0
        self.quirks = set()
        self.files = {}          # path -> items (abstract program of that file)
        self.exists = None       # callable path -> bool|z3
        self.include_paths = []
        self.last_item_line = None
        self.last_include_line = None
        self.opened = []
        self.rd = 0              # resolve_depth (int or z3 Int)
        self.idp = 0             # include_depth


def _nm(name):
    """macro names are compared without the backslash of an escaped identifier (IEEE 5.6.1: \\A and A are the same name)"""
    return name[1:] if name.startswith('\\') else name


def ref_defined(st, name):
    name = _nm(name)
    if name in PREDEFINED:
        return True
    e = st.table.get(name)
    if e is None:
        return False
    p = e[0]
    if p is True or p is False:
        return p
    r = st.it.decide(p, 'ref_defined:' + name)
    st.table[name] = (r, e[1])
    return r


def ref_defined_table(st, name):
    name = _nm(name)
    e = st.table.get(name)
    if e is None:
        return False
    p = e[0]
    if p is True or p is False:
        return p
    r = st.it.decide(p, 'ref_defined:' + name)
    st.table[name] = (r, e[1])
    return r


def ref_value(st, name):
    name = _nm(name)
    """value of a defined macro: None (no body) or dict; forks on alternatives"""
    e = st.table[name]
    v = e[1]
    if isinstance(v, list):     # [(cond, value)]
        k = st.it.choose([c for c, _ in v], 'ref_alt:' + name)
        v = v[k][1]
        st.table[name] = (e[0], v)
    return v


def _line_of(x):
    if isinstance(x, Cond):
        return getattr(x, 'line', None)
    return getattr(x, 'line', None)


LIMIT = 64


def _gt_limit(st, d):
    if isinstance(d, int):
        return d > LIMIT
    return st.it.decide(d > LIMIT, 'ref_depth')


def split_ws(s):
    return s.split()


def ref_eval(st, items, file, files=None, strip=False, expander=None, ignore_include=False, include_paths=()):
    """evaluate items (active region) appending expected tokens to st.out"""
    prev_kind = None
    prev_item = None
    for x in items:
        if isinstance(x, Layout):
            continue
        before, prev_item = prev_item, x
        # IEEE 22.4: only white space or a comment may share the line of an `include
        if isinstance(x, (T, Use, Def, Undef, UndefAll, Kept, Cond, Inc)):
            if st.last_include_line is not None and st.last_include_line == (file, _line_of(x)):
                raise RefError('IncludeLine')
        if isinstance(x, (T, Use, Def, Undef, UndefAll, Kept)) or (isinstance(x, Inc) and ignore_include):
            if isinstance(x, T) and prev_kind is T and 'include_line_uses_piece_start' in st.quirks:
                pass    # emulation of (fixed) finding F8: a text run is recorded with the line it STARTS on
            else:
                st.last_item_line = (file, _line_of(x))
        prev_kind = type(x)
        if isinstance(x, T):
            st.out.append(Tok(x.tok, ('src', file, x.off)))
        elif isinstance(x, Com):
            if not strip:
                st.out.append(Tok(x.text, ('com', file, x.off)))
        elif isinstance(x, Def):
            if _nm(x.name) not in PREDEFINED:
                st.table[_nm(x.name)] = (True, {'body': x.body, 'file': file, 'body_off': getattr(x, 'body_off', None),
                                           'head_end': getattr(x, 'head_end', None), 'body_items': x.body_items,
                                           'params': x.params, 'name': _nm(x.name),
                                           'src': 'macrobody' if getattr(x, 'in_macro_body', False) else 'text'})
            text = '`define ' + x.name
            if x.params is not None:
                text += '(' + ','.join(p if d is None else '%s=%s' % (p, d) for p, d in x.params) + ')'
            if x.body is not None:
                text += ' ' + x.body
            st.out.append(Tok(text, ('kept', file, x.off)))
        elif isinstance(x, Undef):
            st.table.pop(_nm(x.name), None)
            for t in ('`undef', x.name):
                st.out.append(Tok(t, ('kept', file, x.off)))
        elif isinstance(x, UndefAll):
            st.table.clear()
            st.out.append(Tok('`undefineall', ('kept', file, x.off)))
        elif isinstance(x, Kept):
            for t in split_ws(x.text):
                st.out.append(Tok(t, ('kept', file, x.off)))
        elif isinstance(x, Use):
            if x.name == '__LINE__':
                st.out.append(Tok(str(x.line), ('synth',)))
                continue
            if x.name == '__FILE__':
                st.out.append(Tok('"%s"' % file, ('synth',)))
                continue
            if _gt_limit(st, st.rd + 1):
                raise RefError('ExceedRecursiveLimit')
            if not ref_defined(st, x.name):
                raise RefError('DefineNotFound', x.name)
            v = ref_value(st, x.name)
            if v is None or v.get('body') is None:
                if v is not None and v.get('params') and x.args is None:
                    pass
                # defined without body: expands to nothing (argument list, if any, is dropped with it)
                continue
            if expander is None:
                raise RuntimeError('macro with body needs an expander')
            expander(st, x, v, file, strip)
        elif isinstance(x, Cond):
            taken = None
            for i, (name, body) in enumerate(x.branches):
                if i > 0 and 'elsif_predefined_uses_ifid' in st.quirks:
                    # emulation of known finding F3: `elsif tests the FIRST identifier for predefinedness
                    d = ref_defined_table(st, name) or (x.branches[0][0] in PREDEFINED)
                else:
                    d = ref_defined(st, name)
                hit = (not d) if (x.neg and i == 0) else d
                if hit:
                    taken = body
                    break
            if taken is None and x.els is not None:
                taken = x.els
            if taken is not None:
                n0 = len(st.out)
                ref_eval(st, taken, file, files, strip, expander, ignore_include, include_paths)
                if 'cond_head_ws_dropped' in st.quirks and n0 > 0 and len(st.out) > n0 and isinstance(before, (T, Use)) and before.sep == '':
                    # emulation of finding F14: the white space after `ifdef NAME / `elsif NAME / `else is never copied, so a token
                    # that touches the directive is glued to the first token of the taken branch
                    st.out[n0 - 1].glue = True
            st.last_item_line = (file, x.end_line)
        elif isinstance(x, Inc):
            if ignore_include:
                if x.style not in ('"', '<'):
                    # macro-named file: the usage is still expanded as an ordinary macro usage
                    raise RuntimeError('ignore_include with macro-named include: not in the reference')
                continue
            if st.last_item_line is not None and st.last_item_line == (file, x.line):
                raise RefError('IncludeLine')
            st.last_include_line = (file, x.line)
            saved = (st.last_item_line, st.last_include_line)
            st.last_item_line = st.last_include_line = None
            try:
                ref_include(st, x, file, strip, expander, include_paths)
            finally:
                st.last_item_line, st.last_include_line = saved
        else:
            raise TypeError(x)


def simple_expander(st, use, v, file, strip):
    """object-like macro: body is a token list, or an abstract program (body_items) when it contains
    directives; the expansion is preprocessed again with the table in force (IEEE 22.5.1)"""
    if v.get('params'):
        raise RuntimeError('simple_expander: function-like macro')
    prov = ('macro', v.get('file'), v.get('head_end'))
    paren = ''
    if use.args is not None:
        # `X() with an object-like macro: the parenthesis text is restored right after the body
        paren = '(' + ','.join('' if a is None else a for a in use.args) + ')'
    if getattr(use, 'paren_items', None) is not None:
        # body, then the parenthesised text evaluated as part of the same expansion (conditionals decided, defines in force afterwards)
        sub = RefState(st.it, st.table)
        sub.files, sub.exists, sub.include_paths, sub.quirks = st.files, st.exists, st.include_paths, st.quirks
        sub.rd = st.rd + 1
        sub.idp = 0 if 'macro_expansion_resets_include_depth' in st.quirks else st.idp
        sub.opened = st.opened
        sub.depth_inc = st.depth_inc
        def synth(tok):
            t = T(tok, ' ')
            t.off, t.line = None, getattr(use, 'line', None)
            return t
        body_items = v['body_items'] if v.get('body_items') is not None else [synth(t) for t in split_ws(v['body'])]
        ref_eval(sub, body_items + [synth('(')] + list(use.paren_items) + [synth(')')], file, None, strip, simple_expander, False, st.include_paths)
        st.table = sub.table
        for t in sub.out:
            st.out.append(Tok(t.text, prov))
        return
    if v.get('body_items') is not None:
        sub = RefState(st.it, st.table)
        sub.files, sub.exists, sub.include_paths, sub.quirks = st.files, st.exists, st.include_paths, st.quirks
        sub.rd = st.rd + 1
        sub.idp = 0 if 'macro_expansion_resets_include_depth' in st.quirks else st.idp
        sub.opened = st.opened
        sub.depth_inc = st.depth_inc
        ref_eval(sub, v['body_items'], file, None, strip, simple_expander, False, st.include_paths)
        st.table = sub.table
        for t in sub.out:
            st.out.append(Tok(t.text, prov))
        for t in split_ws(paren):
            st.out.append(Tok(t, prov))
        return
    for t in split_ws(v['body'] + paren):
        st.out.append(Tok(t, prov))


# IEEE 1800-2017 40.5: the predefined coverage control constants (every run starts with them; a source may redefine them)
SV_COV = {'SV_COV_START': '0', 'SV_COV_STOP': '1', 'SV_COV_RESET': '2', 'SV_COV_CHECK': '3', 'SV_COV_MODULE': '10', 'SV_COV_HIER': '11',
          'SV_COV_ASSERTION': '20', 'SV_COV_FSM_STATE': '21', 'SV_COV_STATEMENT': '22', 'SV_COV_TOGGLE': '23', 'SV_COV_OVERFLOW': '-2',
          'SV_COV_ERROR': '-1', 'SV_COV_NOCOV': '0', 'SV_COV_OK': '1', 'SV_COV_PARTIAL': '2'}


def table_from_case(case, info):
    """reference table from a PPCase + make_table info (same z3 variables)"""
    t = {}
    for name, val in SV_COV.items():
        t[name] = (True, {'body': val, 'file': None, 'body_off': None, 'params': None, 'name': name, 'src': 'builtin'})
    for name, alts in case.sym_defines.items():
        pres, conds = info[name]
        vals = []
        for a in alts:
            if a is None:
                vals.append(None)
            else:
                vals.append({'body': a.get('text'), 'file': None, 'body_off': None,
                             'params': [tuple(p) for p in a.get('args', [])] or None, 'name': name, 'src': 'caller'})
        if len(alts) == 1:
            t[name] = (pres, vals[0])
        else:
            t[name] = (pres, list(zip(conds, vals)))
    for name, a in case.conc_defines.items():
        if a is None:
            t[name] = (True, None)
        else:
            t[name] = (True, {'body': a.get('text'), 'file': None, 'body_off': None,
                              'params': [tuple(p) for p in a.get('args', [])] or None, 'name': name, 'src': 'caller'})
    return t


def path_join(base, p):
    if p.startswith('/'):
        return p
    if base == '':
        return p
    if base.endswith('/'):
        return base + p
    return base + '/' + p


def ref_exists(st, path):
    e = st.exists(path)
    if e is True or e is False:
        return e
    return st.it.decide(e, 'ref_exists:' + path)


def ref_include(st, x, file, strip, expander, include_paths):
    """`include: splice the preprocessed content of the named file (IEEE 22.4 + property C10)"""
    if x.style in ('"', '<'):
        fname = x.fname
    else:
        # file named through a macro: its body is the quoted file name
        if _gt_limit(st, st.rd + 1):
            raise RefError('ExceedRecursiveLimit')
        if not ref_defined(st, x.style):
            raise RefError('DefineNotFound', x.style)
        v = ref_value(st, x.style)
        # the expansion of the macro without a trailing one-line comment, trimmed, quotes removed
        fname = '' if (v is None or v.get('body') is None) else v['body'].split('//')[0].strip().strip('"')
    p = fname
    if not p.startswith('/') and not ref_exists(st, p):
        for ip in st.include_paths:
            np = path_join(ip, p)
            if ref_exists(st, np):
                p = np
                break
    st.opened.append(p)
    if not ref_exists(st, p):
        raise RefError('Include', ('File', p))
    body = st.files.get(p)
    if body is None:
        raise RuntimeError('reference has no program for file %s' % p)
    if body == 'INVALID_UTF8':
        raise RefError('Include', ('ReadUtf8', p))
    st.depth_inc += 1
    if st.depth_inc > 400:
        raise RuntimeError('reference: include recursion not bounded')
    saved = (st.rd, st.idp)
    try:
        if _gt_limit(st, st.idp + 1):
            raise RefError('ExceedRecursiveLimit')
        st.rd, st.idp = 0, st.idp + 1
        n_before = len(st.out)
        ref_eval(st, body, p, None, strip, expander, False, st.include_paths)
        if 'macro_named_include_drops_trailing_ws' in st.quirks and x.style not in ('"', '<') and len(st.out) > n_before:
            # emulation of finding F11: the white space that follows `include `MACRO is not copied, so the last token of a
            # file that does not end in white space touches the next token of the including text
            last = body[-1] if body else None
            if last is not None and getattr(last, 'sep', None) == '' or (isinstance(last, Cond) and last.end_sep == ''):
                st.out[-1].glue = True
    except RefError as e:
        raise RefError('Include', (e.variant, e.name))
    finally:
        st.depth_inc -= 1
        st.rd, st.idp = saved


# ------------------------------------------------------------------------------------------------
# text-level reference expander for function-like macros (IEEE 1800-2017 22.5.1)

import re as _re
_IDENT = _re.compile(r'[A-Za-z_][A-Za-z0-9_]*')


def bind_args(name, params, args):
    """formal -> actual text (IEEE 22.5.1: default for an omitted/empty actual, nothing if no default
    for an explicitly empty one, error when a required actual is missing)"""
    params = params or []
    if params and args is None:
        raise RefError('DefineNoArgs', name)
    m = {}
    args = args or []
    for i, (p, dflt) in enumerate(params):
        if i < len(args):
            a = args[i]
            if a is None or a.strip() == '':
                m[p] = dflt if dflt is not None else ''
            else:
                m[p] = a.rstrip()
        else:
            if dflt is None:
                raise RefError('DefineArgNotFound', p)
            m[p] = dflt
    return m


def substitute_body(body, amap):
    """formal substitution + `` / `" / `\\`" / line continuation / // comment removal"""
    out = []
    i = 0
    n = len(body)
    # leading white space (and a leading line continuation) is not part of the macro text
    while i < n and body[i] in ' \t\r\n\x0c\\':
        if body[i] == '\\':
            if body[i + 1:i + 2] == '\n':
                i += 2
                break
            break
        i += 1
    in_str = False        # ordinary string literal: untouched
    while i < n:
        c = body[i]
        if in_str:
            out.append(c)
            if c == '\\' and i + 1 < n:
                out.append(body[i + 1])
                i += 2
                continue
            if c == '"':
                in_str = False
            i += 1
            continue
        if body.startswith('`\\`"', i):
            out.append('\\"')
            i += 4
            continue
        if body.startswith('`"', i):
            out.append('"')
            i += 2
            continue
        if body.startswith('``', i):
            i += 2
            continue
        if body.startswith('//', i):
            j = body.find('\n', i)
            if j < 0:
                break
            i = j
            continue
        if c == '\\' and body.startswith('\\\r\n', i):
            out.append('\r\n')
            i += 3
            continue
        if c == '\\' and body[i + 1:i + 2] in ('\n', '\r'):
            out.append(body[i + 1])
            i += 2
            continue
        if c == '"':
            in_str = True
            out.append(c)
            i += 1
            continue
        m = _IDENT.match(body, i)
        if m:
            w = m.group(0)
            out.append(amap[w] if w in amap else w)
            i = m.end()
            continue
        out.append(c)
        i += 1
    return ''.join(out)


def split_actuals(s, i):
    """s[i] == '(' : returns (list of actual texts or None for empty, index after ')')"""
    depth = 0
    cur = []
    args = []
    j = i + 1
    n = len(s)
    while j < n:
        c = s[j]
        if c == '"':
            k = j + 1
            while k < n and s[k] != '"':
                if s[k] == '\\':
                    k += 1
                k += 1
            cur.append(s[j:k + 1])
            j = k + 1
            continue
        if c in '([{':
            depth += 1
        elif c in ')]}':
            if depth == 0 and c == ')':
                args.append(''.join(cur))
                return [a.strip() if a.strip() else None for a in args], j + 1
            depth -= 1
        elif c == ',' and depth == 0:
            args.append(''.join(cur))
            cur = []
            j += 1
            continue
        cur.append(c)
        j += 1
    raise RefError('Preprocess')


def expand_text(st, text, depth_rd):
    """expand every macro usage in a directive-free text (usages only) with the current table"""
    out = []
    i = 0
    n = len(text)
    while i < n:
        c = text[i]
        if c == '"':
            k = i + 1
            while k < n and text[k] != '"':
                if text[k] == '\\':
                    k += 1
                k += 1
            out.append(text[i:k + 1])
            i = k + 1
            continue
        if text.startswith('//', i):
            k = text.find('\n', i)
            k = n if k < 0 else k
            out.append(text[i:k])
            i = k
            continue
        if text.startswith('/*', i):
            k = text.find('*/', i + 2)
            k = n if k < 0 else k + 2
            out.append(text[i:k])
            i = k
            continue
        if c == '`':
            m = _IDENT.match(text, i + 1)
            if not m:
                raise RefError('Preprocess')
            name = m.group(0)
            j = m.end()
            args = None
            k = j
            while k < n and text[k] in ' \t':
                k += 1
            if k < n and text[k] == '(':
                args, j2 = split_actuals(text, k)
                paren_text = text[k:j2]
                j = j2
            else:
                paren_text = None
            out.append(expand_usage(st, name, args, paren_text, depth_rd))
            i = j
            continue
        out.append(c)
        i += 1
    return ''.join(out)


def expand_usage(st, name, args, paren_text, depth_rd):
    if _gt_limit(st, depth_rd + 1):
        raise RefError('ExceedRecursiveLimit')
    if name == '__LINE__' or name == '__FILE__':
        raise RuntimeError('position macros are not handled by the text expander')
    if not ref_defined(st, name):
        raise RefError('DefineNotFound', name)
    v = ref_value(st, name)
    if v is None:
        return ''
    params = v.get('params') or []
    amap = bind_args(name, params, args)
    if v.get('body') is None:
        return ''
    t = substitute_body(v['body'], amap)
    if not params and paren_text is not None:
        t = t + paren_text
    return expand_text(st, t, depth_rd + 1)


def text_expander(st, use, v, file, strip):
    """expander for ref_eval: function-like and object-like macros, text level"""
    args = use.args
    paren = None
    if args is not None:
        paren = '(' + ','.join('' if a is None else a for a in args) + ')'
        args = [None if (a is None or a.strip() == '') else a.strip() for a in args]
    t = expand_usage(st, use.name, args, paren, st.rd)
    prov = ('macro', v.get('file'), v.get('head_end'))
    for kind, tok in _lex(t):
        if strip and kind == 'com':
            continue
        st.out.append(Tok(tok, prov))


def _lex(text):
    import ppsuite
    return ppsuite.lex_tokens(text)
