"""Per-production analysis with Engine G (gengine): run the body of one grammar production from
MIR on an abstract input span, sub-parsers replaced by contracts; returns per-path facts."""
import re, time
import z3
import engine as E
import gengine as G
from engine import Ref, Struct, Enum, Tup, VecV, Opaque, Closure
from interp import Explorer, Inconclusive, RustPanic, norm_type, strip_generics
from models import Models, deref

_re_iresult = re.compile(r'^Result<\(LocatedSpan<')


def productions(prog):
    """{name: (kind, FnEntry of the body)} for every grammar production of sv-parser-parser"""
    out = {}
    mf = prog.files['sv-parser-parser']
    by_name = {}
    for lst in prog.by_simple.values():
        for e in lst:
            if e.mf is mf:
                by_name[e.name] = e
    for name, e in by_name.items():
        if '{closure' in name or name.startswith('utils::') or '<impl' in name:
            continue
        hdr = e.header
        if ') -> Result<(LocatedSpan<&str, SpanInfo>, ' not in hdr:
            continue
        if len(e.argnorm) != 1 or e.argnorm[0] != 'LocatedSpan':
            continue
        body = by_name.get(name + '::{closure#2}')
        simple = strip_generics(name).split('::')[-1]
        if body is not None and len(body.argnorm) == 1 and body.argnorm[0].startswith('&closure@') and \
                ') -> Result<(LocatedSpan<&str, SpanInfo>, ' in body.header:
            # (an un-annotated function whose own body holds three closures also has a {closure#2}: that one takes arguments
            # and does not return an IResult)
            # #[packrat_parser] applied twice wraps the body twice
            while True:
                deeper = by_name.get(body.name + '::{closure#2}')
                if deeper is not None and deeper.argnorm and deeper.argnorm[0].startswith('&closure@') and \
                        ') -> Result<(LocatedSpan<&str, SpanInfo>, ' in deeper.header:
                    body = deeper
                else:
                    break
            out[simple] = ('packrat', body, e)
        else:
            out[simple] = ('plain', e, e)
    # utils helpers that are productions themselves
    ws = by_name.get('utils::white_space::{closure#2}')
    if ws is not None:
        out['white_space'] = ('packrat', ws, by_name['utils::white_space'])
    # terminals: the closures returned by utils::symbol / keyword / symbol_exact, analysed with the tag text abstract
    for h in ('symbol', 'keyword', 'symbol_exact'):
        e = by_name.get('utils::%s::{closure#0}' % h)
        if e is not None:
            out['utils::' + h] = ('terminal', e, e)
    # delimiter helpers: closures returned by paren/bracket/brace/apostrophe_brace/paren_exact, inner parser abstract
    for h in ('paren', 'paren_exact', 'bracket', 'brace', 'apostrophe_brace'):
        e = by_name.get('utils::%s::{closure#0}' % h)
        if e is not None:
            out['utils::' + h] = ('delimiter', e, e)
    global SPAN_RETURNING
    SPAN_RETURNING = set()
    for simple, (kind, body, outer) in out.items():
        if ') -> Result<(LocatedSpan<&str, SpanInfo>, LocatedSpan<&str, SpanInfo>)' in outer.header:
            SPAN_RETURNING.add(simple)
    return out


SPAN_RETURNING = set()


def callees_text(prog, entry):
    """names of functions textually called in the MIR of entry and its nested closures"""
    mf = entry.mf
    hdr, a, b = mf.items[entry.idx]
    import os
    txt = os.pread(mf._fh.fileno(), b - a, a).decode('utf-8')
    return txt


_PRODS = None


def is_nullable(name, info, nonnullable, hard_failing=(), summaries=None, time_cap=20, garbage=None):
    """can the production succeed without consuming?  paths are abandoned as soon as they provably consumed input,
    so the exploration is small and complete.  Returns True / False / None (budget exhausted)"""
    P = E.prog()
    kind, body, outer = info
    f = P.func(body)
    global _PRODS
    if _PRODS is None:
        _PRODS = set(productions(P))
    mdl = Models()
    G.install(mdl, _PRODS)

    def run(it):
        it.env['g'] = G.GState()
        it.env['tls'] = G.fresh_tls(1, 1)
        it.env['dir_depth_at_entry'] = 1
        it.env['const_hook'] = G.const_hook_tls
        it.env['summaries'] = summaries or {}
        it.env['nonnullable'] = nonnullable
        it.env['hard_failing'] = hard_failing
        it.env['self_name'] = name
        it.env['span_returning'] = SPAN_RETURNING
        p_in = z3.Int('p_in')
        it.assume(z3.And(p_in >= 0, p_in <= G.TOTAL))
        if garbage is None:
            it.env['nullability_mode'] = True
        else:
            # garbage-first mode: can the body succeed having consumed a byte that starts no token?  (see gengine.at_garbage)
            it.env['garbage_mode'] = True
            it.env['garbage_consuming'] = garbage
            it.assume(p_in < G.TOTAL)
        it.env['p_in'] = p_in
        sp = G.span(p_in)
        try:
            if kind == 'packrat':
                clo = Closure(body.closure_span or '', [Ref([sp], 0)])
                r = it.run_func(f, [Ref([clo], 0)])
            elif kind == 'terminal':
                clo = Closure(body.closure_span or '', [E.AbsStr(z3.Int('taglen'))])
                it.assume(z3.Int('taglen') >= 1)
                r = it.run_func(f, [Ref([clo], 0), sp])
            elif kind == 'delimiter':
                clo = Closure(body.closure_span or '', [E.FnItem('inner_of_delimiters')])
                r = it.run_func(f, [Ref([clo], 0), sp])
            else:
                r = it.run_func(f, [sp])
        except G.Consumed:
            return garbage is not None
        r = it.concretize(r)
        if r.variant != 'Ok':
            return False
        if garbage is not None:
            return bool(it.feasible(r.fields[0].fields[0].data['off'] != p_in))
        return bool(it.feasible(r.fields[0].fields[0].data['off'] == p_in))
    ex = Explorer(P, mdl, run, max_paths=6000, step_limit=600_000)
    ex.deadline = time.time() + time_cap
    res = ex.run()
    if any(r.outcome == 'ok' and r.value for r in res):
        return True
    if ex.truncated:
        return None
    return False


def analyze(name, info, summaries=None, nonnullable=None, hard_failing=(), dir_depth=1, ver_depth=1, max_paths=1500, extra_env=None, time_cap=25):
    """all paths of one production body.  Returns dict(paths=[...], stats)"""
    P = E.prog()
    kind, body, outer = info
    f = P.func(body)
    global _PRODS
    if _PRODS is None:
        _PRODS = set(productions(P))
    mdl = Models()
    G.install(mdl, _PRODS)
    t0 = time.time()

    def run(it):
        it.env['g'] = G.GState()
        it.env['tls'] = G.fresh_tls(dir_depth, ver_depth)
        it.env['dir_depth_at_entry'] = dir_depth
        it.env['const_hook'] = G.const_hook_tls
        it.env['summaries'] = summaries or {}
        it.env['nonnullable'] = nonnullable
        it.env['hard_failing'] = hard_failing
        it.env['self_name'] = name
        it.env['span_returning'] = SPAN_RETURNING
        if extra_env:
            it.env.update(extra_env)
        p_in = z3.Int('p_in')
        it.assume(z3.And(p_in >= 0, p_in <= G.TOTAL))
        sp = G.span(p_in)
        before = G.tls_snapshot(it.env['tls'])
        if kind == 'packrat':
            clo = Closure(body.closure_span or '', [Ref([sp], 0)])
            r = it.run_func(f, [Ref([clo], 0)])
        elif kind == 'terminal':
            clo = Closure(body.closure_span or '', [E.AbsStr(z3.Int('taglen'))])
            it.assume(z3.Int('taglen') >= 1)
            r = it.run_func(f, [Ref([clo], 0), sp])
        elif kind == 'delimiter':
            clo = Closure(body.closure_span or '', [E.FnItem('inner_of_delimiters')])
            r = it.run_func(f, [Ref([clo], 0), sp])
        else:
            r = it.run_func(f, [sp])
        r = it.concretize(r)
        after = G.tls_snapshot(it.env['tls'])
        fact = {'ok': r.variant == 'Ok', 'log': list(it.env['g'].log)}
        fact['failure'] = (r.variant == 'Err' and type(r.fields[0]) is Enum and r.fields[0].variant in ('Failure', 'Incomplete'))
        fact['incomplete'] = (r.variant == 'Err' and type(r.fields[0]) is Enum and r.fields[0].variant == 'Incomplete')
        # V2: net effect + content preserved below the entry depth
        dd = len(after[0]) - len(before[0])
        dv = len(after[1]) - len(before[1])
        same = all(x is y for x, y in zip(before[0], after[0])) and all(x is y for x, y in zip(before[1], after[1]))
        fact['effect'] = (dd, dv)
        fact['stack_prefix_kept'] = same
        fact['pushed'] = [getattr(x, 'data', None) if isinstance(x, Opaque) else repr(x) for x in after[1][len(before[1]):]]
        if r.variant == 'Ok':
            s2, val = r.fields[0].fields
            p_out = s2.data['off']
            cond = G.tiling_violation(it, val, p_in, p_out)
            fact['v1_bad'] = None
            if cond is not None and it.feasible(cond):
                fact['v1_bad'] = it.model_for(cond)
                ivs = []
                G.intervals(val, ivs)
                fact['v1_intervals'] = [(str(a), str(b), k) for a, b, k, _ in ivs][:12]
                fact['p_out'] = str(p_out)
            fact['ctx'] = list(getattr(G.gs(it), 'ctx', []))
            kws = it.env.get('kw_bools', [])
            fact['kw_called'] = bool(kws)
            fact['kw_true_on_ok'] = it.model_for(z3.Or(kws)) if (kws and it.feasible(z3.Or(kws))) else None
            nn = it.feasible(p_out == p_in)
            fact['nullable'] = bool(nn)
            fact['eof'] = not it.feasible(p_out != G.TOTAL)
        else:
            # failure must not consume: nothing to check on the span (Err carries no span here)
            pass
        return fact

    ex = Explorer(P, mdl, run, max_paths=max_paths, step_limit=600_000)
    ex.deadline = time.time() + time_cap
    res = ex.run()
    paths = []
    for r in res:
        d = {'outcome': r.outcome, 'obligations': r.obligations, 'decisions': len(r.decisions)}
        if r.outcome == 'ok':
            d.update(r.value)
        elif r.outcome == 'panic':
            d['panic'] = r.panic
            d['model'] = r.model
        paths.append(d)
    return {'name': name, 'paths': paths, 'truncated': ex.truncated, 'queries': ex.solver_checks, 'solver_s': ex.solver_time, 'steps': ex.steps,
            'models': dict(mdl.called), 'wall': round(time.time() - t0, 2)}
