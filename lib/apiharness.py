"""Harness for the API wrappers (sv-parser/src/lib.rs, preprocess/preprocess_inner): the real MIR
of a wrapper is executed with its callees replaced by recording stubs; all flags are z3 variables.
Used by C20 (entry points agree), C14 (error location mapping), C15 (mode switch), C08 (file errors)."""
import z3
import engine as E
from engine import Ref, PathV, VecV, Struct, Tup, Opaque, Enum, StringV, AbsStr
from interp import Explorer, Inconclusive, RustPanic
from models import Models, some, none, ok, err, deref, sv, HashMapV
import models_pp


class Recorder:
    def __init__(self):
        self.calls = []


def param_names(f):
    """positional parameter names of a MIR function from its debug info"""
    inv = {}
    for name, place in f.debug.items():
        place = place.strip()
        if place.startswith('_') and place[1:].isdigit():
            inv[int(place[1:])] = name
    return [inv.get(n, '_%d' % n) for n, _ in f.args]


def token(kind, ident):
    return Opaque(kind, ident)


def run_wrapper(fname_pred, args_fn, stubs, check_fn, env_fn=None, max_paths=200):
    """explore all paths of one wrapper.  args_fn(it) -> (args, symbols); stubs: list of (regex, fn(it, ci, args, dest_ty, rec))
    check_fn(it, result, rec, symbols) -> list of violation notes (each may carry a z3 'bad' condition already decided)"""
    P = E.prog()
    f = E.fn(*fname_pred)
    results = []

    def body(it):
        it.env['format_hook'] = models_pp.format_hook
        it.env['native'] = E.native()
        if env_fn:
            env_fn(it)
        rec = Recorder()
        it.env['rec'] = rec
        args, syms = args_fn(it)
        r = it.run_func(f, args)
        r = it.concretize(r)
        return check_fn(it, r, rec, syms)

    mdl = Models()
    for rx, fn in stubs:
        mdl.override(rx, (lambda fn: (lambda it, ci, a, d: fn(it, ci, a, d, it.env['rec'])))(fn))
    ex = Explorer(P, mdl, body, max_paths=max_paths)
    res = ex.run()
    ex.models_used = dict(mdl.called)
    return res, ex, f


def same(it, a, b):
    """is value a necessarily equal to b on this path?  returns a z3 condition for 'differs' (or bool)"""
    if a is b:
        return False
    # a path / string handed on by reference or by value is the same argument for an `AsRef<Path>` / `&str` parameter
    da, db = deref(a), deref(b)
    if type(da) in (PathV, StringV, str) and type(db) in (PathV, StringV, str) and (type(a) is Ref) != (type(b) is Ref):
        return same(it, da, db)
    if E.is_sym(a) or E.is_sym(b):
        if isinstance(a, bool) or isinstance(b, bool) or z3.is_bool(a if E.is_sym(a) else b):
            A = a if E.is_sym(a) else z3.BoolVal(bool(a))
            B = b if E.is_sym(b) else z3.BoolVal(bool(b))
            return z3.Xor(A, B)
        return a != b
    if type(a) is Ref and type(b) is Ref:
        return not (a.lst is b.lst and a.idx == b.idx) and same(it, a.get(), b.get())
    if type(a) in (bool, int, str) and type(b) in (bool, int, str):
        return a != b
    if type(a) is PathV and type(b) is PathV:
        return a.s != b.s
    if type(a) is StringV and type(b) is StringV:
        return a.s != b.s
    if type(a) is Opaque and type(b) is Opaque:
        return not (a.kind == b.kind and a.data is b.data or a.data == b.data)
    return not (a is b)


def differs(it, a, b):
    c = same(it, a, b)
    if c is True or c is False:
        return c
    return it.feasible(c)
