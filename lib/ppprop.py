"""Generic driver for properties decided by cross-checking the real preprocessor (MIR, symbolic
inputs) against the reference evaluator on families of abstract programs."""
import sys, os, json, time
import z3
import engine as E
import ppsuite, ppref, ppfamily, proprun
from engine import PPCase
from interp import Inconclusive


def std_evalfn(quirks=()):
    def f(st, items, file, strip, ign):
        st.quirks = set(quirks)
        ppref.ref_eval(st, items, file, None, strip, st.expander if hasattr(st, 'expander') else ppref.simple_expander, ign, st.include_paths)
    return f


def model_constraint(model):
    cs = []
    for k, v in (model or {}).items():
        if v in ('True', 'False'):
            cs.append(z3.Bool(k) == (v == 'True'))
        else:
            try:
                cs.append(z3.Int(k) == int(v))
            except Exception:
                pass
    return z3.And(cs) if cs else z3.BoolVal(True)


class Family:
    """one family of programs checked for one property"""

    def __init__(self, name, progs, make_case, kinds, evalfn=None, want_origins=False, quirk_roles=(), role_fn=None,
                 extra_check=None, max_paths=400, custom_work=None):
        self.name = name
        self.progs = progs
        self.make_case = make_case
        self.kinds = kinds
        self.evalfn = evalfn or std_evalfn()
        self.want_origins = want_origins
        self.quirk_roles = list(quirk_roles)   # [(quirks tuple, role string, kinds it explains)]
        self.role_fn = role_fn                # (prog, mismatch, native) -> role or None
        self.extra_check = extra_check        # (prog, case, crossresult) -> list of extra mismatches
        self.max_paths = max_paths
        self.custom_work = custom_work


_FAMS = {}


def _work(arg):
    fname, idx = arg
    fam = _FAMS[fname]
    pg = fam.progs[idx]
    if getattr(fam, 'custom_work', None):
        return fam.custom_work(pg)
    case = fam.make_case(pg)
    t = time.time()
    files_text = {p: (f['contents'][0] if f['contents'] and isinstance(f['contents'][0], str) else '') for p, f in case.files.items()}
    cr = ppsuite.crosscheck(case, pg.items, fam.evalfn, files_text=files_text, kinds=fam.kinds, want_origins=fam.want_origins,
                            max_paths=fam.max_paths, ref_files=getattr(pg, 'ref_files', None))
    if fam.extra_check:
        cr.mismatches.extend(fam.extra_check(pg, case, cr))
    # translation validation of the interpreter: every explored real path is replayed natively under its model
    # (text, origin of every byte, error variant); a disagreement means the MIR interpreter or a std model is wrong
    validated = 0
    for rp in cr.explorers[0].results:
        if rp.outcome != 'ok' or rp.value is None:
            continue
        try:
            agrees, nat, conc = ppsuite.replay_real(case, rp.model, rp.value)
        except Exception as e:
            raise Inconclusive('native validation failed to run: %s' % e)
        if not agrees:
            raise Inconclusive('MIR interpreter and native run disagree on %s under %s: interpreter %s / native %s' % (
                pg.label, conc, json.dumps({k: rp.value.get(k) for k in ('ok', 'text', 'error')})[:300], json.dumps({k: nat.get(k) for k in ('ok', 'text', 'error', 'panic', 'crash')})[:300]))
        validated += 1
    out = {'family': fname, 'label': pg.label, 'text': case.text, 'real_paths': cr.real_paths, 'ref_paths': cr.ref_paths,
           'pairs': cr.pairs, 'queries': cr.queries + sum(e.solver_checks for e in cr.explorers),
           'solver_s': sum(e.solver_time for e in cr.explorers), 'steps': sum(e.steps for e in cr.explorers),
           'models': cr.explorers[0].models_used, 'cex': [], 'obligations': cr.obligations[:5], 'case': case.describe(), 'validated': validated}
    seen = set()
    for mm in cr.mismatches:
        if mm['kind'] not in fam.kinds and mm['kind'] != 'panic':
            continue
        key = (mm['kind'], mm['note'])
        if key in seen:
            continue
        seen.add(key)
        cex = {'kind': mm['kind'], 'note': mm['note'], 'model': mm['model']}
        if mm.get('no_replay'):
            cex['status'] = 'reproduced'
            cex['role'] = mm.get('role') or '%s:%s' % (mm['kind'], pg.label)
            out['cex'].append(cex)
            continue
        agrees, nat, conc = ppsuite.replay_real(case, mm['model'], mm['real'])
        cex.update({'conc': conc, 'native': nat, 'interp_agrees_with_native': agrees})
        if mm['kind'] == 'panic':
            # a panic predicted by the interpreter must show natively as panic/crash
            if nat.get('panic') or nat.get('crash'):
                cex['status'] = 'reproduced'
                cex['role'] = 'panic:%s' % pg.label
            else:
                cex['status'] = 'not_reproduced'
            out['cex'].append(cex)
            continue
        if not agrees:
            cex['status'] = 'not_reproduced'
            out['cex'].append(cex)
            continue
        role = None
        for quirks, qrole, qkinds in fam.quirk_roles:
            if mm['kind'] not in qkinds:
                continue
            # the finding explains the mismatch iff the reference WITH the finding emulated agrees with the
            # real code (for this kind) under the counterexample's assignment
            try:
                cr3 = ppsuite.crosscheck(case, pg.items, std_evalfn(quirks), files_text=files_text, kinds=(mm['kind'],),
                                         want_origins=(mm['kind'] == 'origin' and fam.want_origins), max_paths=fam.max_paths,
                                         ref_files=getattr(pg, 'ref_files', None))
                still = False
                for m3 in cr3.mismatches:
                    if m3['kind'] != mm['kind']:
                        continue
                    if all(m3['model'].get(k, v) == v for k, v in (mm['model'] or {}).items() if k in (m3['model'] or {})):
                        still = True
                if not still:
                    role = qrole
            except Exception:
                pass
            if role:
                break
        if role is None and fam.role_fn:
            role = fam.role_fn(pg, mm, nat)
        cex['status'] = 'reproduced'
        cex['role'] = role or '%s:%s' % (mm['kind'], pg.label)
        out['cex'].append(cex)
    out['wall'] = round(time.time() - t, 2)
    return out


def run(PID, level, families, args, rule, bounds, outside, assumptions, sample_sym=''):
    ev = E.Evidence(PID, level, args.tier, args.seed)
    rep = E.Reporter(PID, ev)
    try:
        E.setup()
        fams = families(args)
        work = []
        for f in fams:
            _FAMS[f.name] = f
            for i, pg in enumerate(f.progs):
                if args.only and args.only not in pg.label:
                    continue
                work.append((f.name, i))
        results = proprun.pmap(_work, work)
    except Exception as e:
        import traceback
        traceback.print_exc()
        print('INCONCLUSIVE property=%s setup/run failed: %s' % (PID, e))
        ev.cov['explanation'] = 'failed: %s' % e
        ev.cov['evaluations'] = 1
        ev.cov['samples'] = [{'setup_failure': str(e)[:300]}]
        ev.write()
        return 2
    nsamp = {}
    for (fname, idx), (st, r) in zip(work, results):
        pg = _FAMS[fname].progs[idx]
        if st != 'ok':
            rep.inconc('%s: %s' % (pg.label, str(r)[:600]))
            continue
        fam = ev.family(fname)
        ev.cov['evaluations'] += 1
        fam['cases'] += 1
        fam['paths'] += r['real_paths'] + r['ref_paths']
        fam['queries'] += r['queries']
        ev.cov['paths'] += r['real_paths']
        ev.cov['queries'] += r['queries']
        ev.cov['solver_s'] = round(ev.cov['solver_s'] + r['solver_s'], 3)
        for k, v in r['models'].items():
            ev.cov['models_and_stubs'][k] = ev.cov['models_and_stubs'].get(k, 0) + v
        if r['real_paths'] > 1:
            for i in range(r['real_paths']):
                ev.distinct((r['label'], i))
        if nsamp.get(fname, 0) < 4:
            nsamp[fname] = nsamp.get(fname, 0) + 1
            ev.sample({'family': fname, 'program': r['label'], 'text': r['text'], 'symbolic': sample_sym,
                       'real_paths': r['real_paths'], 'reference_cases': r['ref_paths'], 'feasible_intersections': r['pairs']}, limit=24)
        ev.cov['replayed'] += r.get('validated', 0)
        for cex in r['cex']:
            if cex['status'] != 'reproduced':
                rep.inconc('counterexample of %s not reproduced natively (interpreter/model defect?): %s | native=%s' % (
                    r['label'], cex['note'][:300], json.dumps(cex.get('native'))[:300]))
                continue
            ev.cov['replayed'] += 1
            cex['case'] = r['case']
            rep.counterexample(cex['role'], '%s: %s' % (r['label'], cex['note'][:300]), cex)
    ev.cov['states'] = ev.cov['paths']
    ev.cov['transitions'] = ev.cov['queries']
    ev.cov['traces_validated_against_impl'] = ev.cov['replayed']
    ev.cov['rule'] = rule
    ev.cov['bounds'] = bounds
    ev.cov['outside'] = outside
    ev.assumptions = assumptions
    rc = rep.finish()
    ev.write()
    return rc


STD_ASSUMPTIONS = ['rustc nightly MIR = semantics of the code the stable compiler builds (dev-profile arithmetic: overflow panics)',
                   'std models listed in coverage.models_and_stubs (String, Vec, HashMap with symbolic presence, BTreeMap = std B-tree algorithm with the real Range::cmp from MIR, Option/Result, iterators, Path, File as symbolic file system)',
                   'the real nom parser, run natively through svreplay, provides the tree of each concrete text (concolic split); the tree iterators and conversions are executed from MIR',
                   'reference evaluator lib/ppref.py encodes IEEE 1800-2017 22.4-22.6 as restated by the property']
