"""Engine L: bounded lexical queries.  The real lexer bodies (MIR) are run on a text of concrete
length n <= N whose BYTES are z3 variables over a small alphabet; nom primitives are decided on the
symbolic bytes (forking on match lengths), productions reached from the lexer are executed from their
own MIR (no contracts).  A reference lexer written from IEEE 1800-2017 clause 5 forks through the same
solver; z3 decides every intersection of a real path with a reference case."""
import time
import z3
import engine as E
import gengine as G
import gprod
from engine import Ref, Struct, Enum, Tup, VecV, Opaque, Closure, FnItem, UNIT, AbsStr
from interp import Explorer, Inconclusive, RustPanic, PathInfeasible
from models import Models, ok, err, some, none, deref

BLANKS = ' \t\r\n\x0c'
IDSTART = 'abcdefghijklmnopqrstuvwxyzABCDEFGHIJKLMNOPQRSTUVWXYZ_'
IDCHARS = IDSTART + '0123456789'


class LexText:
    def __init__(self, n, alphabet, tag='b'):
        self.n = n
        self.alphabet = sorted(set(alphabet))
        self.b = [z3.Int('%s%d' % (tag, i)) for i in range(n)]

    def constraints(self):
        return [z3.Or([x == ord(c) for c in self.alphabet]) for x in self.b]

    def is_in(self, i, chars):
        cs = [c for c in chars if c in self.alphabet]
        if not cs:
            return False
        if len(cs) == len(self.alphabet):
            return True
        return z3.Or([self.b[i] == ord(c) for c in cs])

    def decode(self, model):
        return ''.join(chr(int(model.get(str(x), ord(self.alphabet[0])))) for x in self.b)


def lex_prim(it, P_, sp, dest_ty):
    """nom primitives on symbolic bytes; returns NotImplemented for combinators (handled by gengine)"""
    lx = it.env['lex']
    k = P_.kind
    p = sp.data['off']
    n = lx.n

    def okspan(q):
        return ok(Tup([G.span(q), G.span(p, length=q - p)]))

    def run_of(chars, negate=False, universe=None):
        q = p
        while q < n:
            c = lx.is_in(q, chars)
            if negate:
                c = (not c) if isinstance(c, bool) else z3.Not(c)
            if not it.decide(c, 'run'):
                break
            q += 1
        return q
    if k in ('tag', 'tag_no_case'):
        t = P_.args[0]
        if not isinstance(t, str):
            raise Inconclusive('lexical tag with non-constant text')
        if p + len(t) > n:
            return G.nom_error(it, sp)
        conds = []
        for i, ch in enumerate(t):
            alts = {ch} if k == 'tag' else {ch.lower(), ch.upper()}
            conds.append(lx.is_in(p + i, ''.join(alts)))
        if any(c is False for c in conds):
            return G.nom_error(it, sp)
        cs = [c for c in conds if c is not True]
        c = z3.And(cs) if cs else True
        if it.decide(c, 'tag'):
            return okspan(p + len(t))
        return G.nom_error(it, sp)
    sets = {'alpha1': IDSTART.replace('_', ''), 'digit1': '0123456789', 'alphanumeric1': IDCHARS.replace('_', ''), 'space1': ' \t', 'multispace1': ' \t\r\n',
            'hex_digit1': '0123456789abcdefABCDEF'}
    if k in sets or k == 'is_a':
        chars = sets.get(k) if k in sets else P_.args[0]
        if not isinstance(chars, str):
            raise Inconclusive('is_a with non-constant set')
        q = run_of(chars)
        return okspan(q) if q > p else G.nom_error(it, sp)
    if k == 'is_not':
        chars = P_.args[0]
        q = run_of(chars, negate=True)
        return okspan(q) if q > p else G.nom_error(it, sp)
    if k in ('take_while', 'take_while1', 'take_till', 'take_till1', 'satisfy'):
        # predicate closures (|c: char| ...) are evaluated from their MIR on every symbol of the alphabet; the bytes stay symbolic
        pred = P_.args[0]
        pv = pred.get() if type(pred) is Ref else pred
        key = None
        if type(pv) is Closure and not pv.fields:
            key = 'closure@' + pv.span
        elif type(pv) is FnItem:
            key = 'fn ' + pv.path
        cache = lx.__dict__.setdefault('_predsets', {})
        acc = cache.get(key) if key else None
        if acc is None:
            acc = ''
            for ch in lx.alphabet:
                r = it.call_value(pred.get() if type(pred) is Ref else pred, [E.Char(ch)])
                if E.is_sym(r):
                    raise Inconclusive('predicate of %s is symbolic on a concrete character' % k)
                if r:
                    acc += ch
            if key:
                cache[key] = acc
        if k == 'satisfy':
            if p >= n:
                return G.nom_error(it, sp)
            if it.decide(lx.is_in(p, acc), k):
                return ok(Tup([G.span(p + 1), Opaque('AbsChar', {'off': p, 'w': 1})]))
            return G.nom_error(it, sp)
        q = run_of(acc, negate=k.startswith('take_till'))
        if k.endswith('1') and q == p:
            return G.nom_error(it, sp)
        return okspan(q)
    if k in ('one_of', 'none_of', 'char', 'anychar'):
        if p >= n:
            return G.nom_error(it, sp)
        if k == 'anychar':
            c = True
        else:
            a0 = P_.args[0]
            chars = a0 if isinstance(a0, str) else (a0.c if hasattr(a0, 'c') else None)
            if chars is None:
                raise Inconclusive('one_of with non-constant set')
            c = lx.is_in(p, chars)
            if k == 'none_of':
                c = (not c) if isinstance(c, bool) else z3.Not(c)
        if it.decide(c, k):
            return ok(Tup([G.span(p + 1), Opaque('AbsChar', {'off': p, 'w': 1})]))
        return G.nom_error(it, sp)
    if k == 'line_ending':
        if p < n and it.decide(lx.is_in(p, '\n'), 'line_ending'):
            return okspan(p + 1)
        if p + 1 < n and it.decide(z3.And(*[c for c in (lx.is_in(p, '\r'), lx.is_in(p + 1, '\n')) if c is not True]) if not (lx.is_in(p, '\r') is False or lx.is_in(p + 1, '\n') is False) else False, 'line_ending'):
            return okspan(p + 2)
        return G.nom_error(it, sp)
    if k in ('not_line_ending', 'not_line_ending1'):
        # nom 7: everything up to CR or LF; a CR that is not followed by LF is an error
        q = run_of('\r\n', negate=True)
        if q < n:
            c = lx.is_in(q, '\r')
            if c is not False and it.decide(c, 'nle_cr'):
                c2 = lx.is_in(q + 1, '\n') if q + 1 < n else False
                if c2 is False or not it.decide(c2, 'nle_crlf'):
                    return G.nom_error(it, sp)
        return okspan(q)
    if k == 'eof':
        return ok(Tup([sp, G.span(p, length=0)])) if p == n else G.nom_error(it, sp)
    if k == 'take':
        cnt = P_.args[0]
        if not isinstance(cnt, int):
            raise Inconclusive('take with non-constant count')
        return okspan(p + cnt) if p + cnt <= n else G.nom_error(it, sp)
    if k == 'take_until':
        t = P_.args[0]
        q = p
        while q + len(t) <= n:
            cs = [lx.is_in(q + i, ch) for i, ch in enumerate(t)]
            if all(c is not False for c in cs):
                c = z3.And([c for c in cs if c is not True]) if any(c is not True for c in cs) else True
                if it.decide(c, 'take_until'):
                    return okspan(q)
            q += 1
        return G.nom_error(it, sp)
    if k == 'all_consuming':
        r = it.concretize(G.apply(it, P_.args[0], sp))
        if r.variant == 'Ok':
            return r if r.fields[0].fields[0].data['off'] == n else G.nom_error(it, sp)
        return r
    if k in ('many0', 'many1'):
        cur = sp
        vals = []
        while True:
            r = it.concretize(G.apply(it, P_.args[0], cur))
            if G.is_failure(r):
                return r
            if r.variant != 'Ok':
                break
            s2, v = r.fields[0].fields
            if s2.data['off'] <= cur.data['off']:
                return G.nom_error(it, sp)
            cur = s2
            vals.append(v)
        if k == 'many1' and not vals:
            return G.nom_error(it, sp)
        return ok(Tup([cur, VecV(vals)]))
    if k == 'many_till':
        cur = sp
        vals = []
        while True:
            r = it.concretize(G.apply(it, P_.args[1], cur))
            if r.variant == 'Ok':
                s2, v = r.fields[0].fields
                return ok(Tup([s2, Tup([VecV(vals), v])]))
            r = it.concretize(G.apply(it, P_.args[0], cur))
            if r.variant != 'Ok':
                return r
            s2, v = r.fields[0].fields
            if s2.data['off'] <= cur.data['off']:
                return G.nom_error(it, sp)
            cur = s2
            vals.append(v)
    if k == 'terminal':
        raise Inconclusive('terminal abstraction is not used in lexical mode')
    return NotImplemented


def lex_production(it, name, path, sp, dest_ty):
    """production hook in lexical mode: execute the callee's own body"""
    lx = it.env['lex']
    prods = it.env['lex_prods']
    info = prods.get(name)
    if info is None:
        raise Inconclusive('lexical mode reached unknown production %s' % name)
    kind, body, outer = info
    depth = it.env.get('lex_depth', 0)
    if depth > 12:
        raise Inconclusive('lexical mode: production nesting too deep at %s' % name)
    it.env['lex_depth'] = depth + 1
    try:
        f = it.prog.func(body)
        if kind == 'packrat':
            clo = Closure(body.closure_span or '', [Ref([sp], 0)])
            return it.run_func(f, [Ref([clo], 0)])
        return it.run_func(f, [sp])
    finally:
        it.env['lex_depth'] = depth


def run_lexer(entry, n, alphabet, prods, is_keyword=False, in_directive=0, max_paths=4000, time_cap=60):
    """entry: ('production', name) | ('closure', FnEntry, [captures]) ; returns (paths, explorer, LexText)
    each path value: ('ok', consumed, value) | ('err',)"""
    P = E.prog()
    lx = LexText(n, alphabet)
    mdl = Models()
    G.install(mdl, set(prods))
    # lexical mode: no terminal abstraction, productions descend
    mdl.pre_hooks = [h for h in mdl.pre_hooks if getattr(h, '__name__', '') != 'terminal_ctor']

    def body(it):
        it.env['g'] = G.GState()
        it.env['tls'] = G.fresh_tls(in_directive, 0)
        it.env['const_hook'] = G.const_hook_tls
        it.env['summaries'] = {}
        it.env['nonnullable'] = None
        it.env['hard_failing'] = ()
        it.env['self_name'] = 'utils::symbol'      # disables the terminal abstraction
        it.env['span_returning'] = gprod.SPAN_RETURNING
        it.env['lex'] = lx
        it.env['lex_prods'] = prods
        it.env['production_hook'] = lex_production
        it.env['is_keyword_value'] = is_keyword
        for c in lx.constraints():
            it.assume(c)
        sp = G.span(0)
        if entry[0] == 'production':
            r = lex_production(it, entry[1], entry[1], sp, None)
        else:
            f = P.func(entry[1])
            clo = Closure(entry[1].closure_span or '', list(entry[2]))
            r = it.run_func(f, [Ref([clo], 0), sp])
        r = it.concretize(r)
        if r.variant == 'Ok':
            s2, v = r.fields[0].fields
            return ('ok', s2.data['off'], summarize(v))
        return ('err',)
    ex = Explorer(P, mdl, body, max_paths=max_paths, step_limit=2_000_000)
    ex.deadline = time.time() + time_cap
    res = ex.run()
    ex.models_used = dict(mdl.called)
    return res, ex, lx


def summarize(v):
    """leaf intervals (offset, len) of a lexer result in order + top-level kind"""
    ivs = []
    G.intervals(v, ivs)
    kind = None
    if type(v) is Enum:
        kind = '%s::%s' % (v.ty, v.variant)
    elif type(v) is Struct:
        kind = v.ty
    return {'kind': kind, 'leaves': [(int(a) if not E.is_sym(a) else str(a), int(b) if not E.is_sym(b) else str(b)) for a, b, k, l in ivs]}


def run_reference(reffn, lx, max_paths=4000):
    """reference lexer: reffn(R) -> ('ok', consumed[, kind]) | ('err',), with R.isin(i, chars) forking"""
    P = E.prog()

    class R:
        def __init__(self, it):
            self.it = it
            self.n = lx.n

        def isin(self, i, chars):
            if i >= lx.n:
                return False
            return self.it.decide(lx.is_in(i, chars), 'ref')

    def body(it):
        for c in lx.constraints():
            it.assume(c)
        return reffn(R(it))
    ex = Explorer(P, Models(), body, max_paths=max_paths)
    return ex.run(), ex


def crosscheck(entry, n, alphabet, prods, reffn, compare, **kw):
    """returns (mismatches, stats): mismatch = dict(text, real, ref)"""
    real, ex, lx = run_lexer(entry, n, alphabet, prods, **kw)
    if ex.truncated:
        raise Inconclusive('lexical budget exhausted (n=%d)' % n)
    ref, ex2 = run_reference(reffn, lx)
    out = []
    pairs = 0
    queries = 0
    for rp in real:
        if rp.outcome == 'panic':
            out.append({'text': lx.decode(rp.model or {}), 'real': 'panic: %s' % rp.panic['msg'], 'ref': None})
            continue
        for ob in rp.obligations:
            out.append({'text': lx.decode(ob.get('model') or {}), 'real': 'can panic: %s' % ob['msg'], 'ref': None})
        for fp in ref:
            s = z3.Solver()
            for c in rp.pc + fp.pc:
                s.add(c)
            queries += 1
            if s.check() != z3.sat:
                continue
            pairs += 1
            note = compare(rp.value, fp.value)
            if note:
                m = s.model()
                md = {str(d): str(m[d]) for d in m.decls()}
                out.append({'text': lx.decode(md), 'real': rp.value, 'ref': fp.value, 'note': note})
    return out, {'real_paths': len(real), 'ref_paths': len(ref), 'pairs': pairs, 'queries': queries + ex.solver_checks + ex2.solver_checks,
                 'solver_s': ex.solver_time + ex2.solver_time, 'steps': ex.steps, 'models': ex.models_used}
